#!/venv/bin/python
"""Regenerate MANIFEST.json (kept under version control; this script is the single source)."""
import json
import os
import subprocess

ROOT = os.path.dirname(os.path.dirname(os.path.abspath(__file__)))

TECH = {
    "C01": ("explicit-state BFS of the real conductor under a provider simulator; token-game reference stepped "
            "in lock-step on every transition", "5/C01"),
    "C02": ("explicit-state BFS with pause/resume/cancel moves; status invariants against harness-side in-flight "
            "set and token-game reference in every state", "5/C02"),
    "C03": ("explicit-state BFS with pause/resume/cancel/rerun moves; progress oracle at every quiescent state", "5/C03"),
    "C04": ("explicit-state BFS past the first terminal status plus exhaustive status-request probes (16 values) "
            "in every reachable state", "5/C04"),
    "C05": ("explicit-state BFS where every move runs on the live conductor and on its serialize/deserialize "
            "twin; crash is also a move (all crash-point subsets within the bound)", "5/C05"),
    "C06": ("explicit-state BFS over publish-placement definitions with unique result tokens; causal version-map "
            "reference compared with every offered context", "5/C06"),
    "C07": ("explicit-state BFS over fan-in sweeps (all arrival orders incl. lazy dispatch); reference arrivals per "
            "(join, lineage)", "5/C07"),
    "C08": ("exhaustive enumeration of all completion linearisations per (definition, outcome assignment); set of "
            "terminal observations must be a singleton", "5/C08"),
    "C09": ("explicit-state BFS with one pause at every position and resume at rest; lock-step unpaused twin "
            "conductor whose state is part of the explored state", "5/C09"),
    "C10": ("explicit-state BFS with one cancel at every position (also after pause/resume); invariants in every "
            "later state", "5/C10"),
    "C11": ("exhaustive enumeration position x failure kind x language, each host definition explored over all "
            "interleavings (plus deviation-bounded control requests)", "5/C11"),
    "C12": ("explicit-state BFS over with-items families (n, concurrency, placement) with item outcome vectors, "
            "all report orders, pause/cancel; harness-side item book-keeping", "5/C12"),
    "C13": ("explicit-state BFS over retry families; reference decides every retry, retried attempts compared "
            "pre/post", "5/C13"),
    "C14": ("bounded exhaustive enumeration of definitions (micro grammar + shapes + fixtures) against an "
            "independent reference composer, all declaration orders, serialise/restore", "5/C14"),
    "C15": ("explicit-state BFS with an exception monitor on every accepted definition; exhaustive single-fault "
            "mutant enumeration against inspect()", "5/C15"),
    "C16": ("bounded exhaustive enumeration of a JSON value grammar x reference forms x persistence through the "
            "real conductor's data path", "5/C16"),
    "C17": ("explicit-state BFS of every completed history x admissible rerun requests x continuations; token-game "
            "reference extended with requested executions; clean-twin comparison; inadmissible-request probes in "
            "every state", "5/C17"),
    "C18": ("explicit-state BFS; temporal invariant (prefix / frozen records) on every transition", "5/C18"),
    "C19": ("double-query at every explored dispatch; separate interpreter processes with different hash seeds; "
            "exhaustive single deviations of set-iteration order via an injected set subclass", "5/C19"),
    "C20": ("bounded exhaustive enumeration of (shorthand, long form) pairs over the documented inline value "
            "grammar; graphs, inspection and conducted observations compared", "5/C20"),
}

LEVEL = {p: "model_checking" for p in TECH}
LEVEL["C16"] = "exploration"
LEVEL["C20"] = "exploration"

TEXT = {
    "model_checking": "Exhaustive within the stated bounds (definitions of the listed families, outcome menus, "
                      "control-request budgets, deviation bound for big shapes): every explored transition is an "
                      "execution of the real conductor API and is judged by the oracle; nothing is sampled. "
                      "The claim does not extend beyond the bounds (small-scope hypothesis). In the thorough "
                      "tier every exploration is a breadth-first prefix of at most VERIF_MAX_STATES (default "
                      "10000) distinct states, which makes its size deterministic; a wall-clock budget "
                      "(VERIF_BUDGET_S, default 3600 s per worker pool) is a safety net for slow machines. "
                      "Explorations cut by either are counted in the evidence and the run is then not marked "
                      "exhaustive.",
    "exploration": "Exhaustive over a finite input grammar (printed in the evidence), each case executed on the "
                   "real code and compared with a reference; nothing about inputs outside the grammar.",
}


def main():
    props = [json.loads(l)["id"] for l in open(os.path.join(ROOT, "properties.jsonl"))]
    commits = subprocess.check_output(
        ["git", "-C", "/repo", "log", "--format=%H %s", "e5e9990..HEAD"]).decode().strip().split("\n")
    checks = []
    for p in props:
        tech, ref = TECH[p]
        checks.append({
            "property_id": p,
            "quick_cmd": "./check %s --tier quick" % p,
            "thorough_cmd": "./check %s --tier thorough" % p,
            "evidence_file": "/verif/evidence/%s.json" % p,
            "replay_cmd_template": "./check --replay {path}",
            "engine": "vx",
            "level_claimed": {"category": LEVEL[p], "text": TEXT[LEVEL[p]], "design_ref": "DESIGN.md section " + ref},
            "level_note": "trusted base: the provider simulator (vx/sim.py) and its protocol assumptions, the "
                          "reference models in vx/refdef.py + vx/refmodel.py (closed expression vocabulary; "
                          "conditions outside it are read from the engine and counted as trusted), CPython; "
                          "known findings are matched by causal signature (KNOWN_FINDINGS.json)",
            "technique": tech,
        })
    m = {
        "version": 1,
        "setup_cmd": "/venv/bin/python -c \"import sys; sys.path.insert(0, '/verif'); import vx.props\"",
        "hooks": {
            "guard": "ORQUESTA_VERIF",
            "enable": "no source hooks in /repo: the guard only marks the harness-side set-order shim "
                      "(vx/c19.py injects a set subclass into the engine modules' globals inside check worker "
                      "processes); checks import orquesta from /repo's working tree (editable install)",
            "baseline_off_cmd": "cd /repo && /venv/bin/python -m pytest -ra -q -p no:cacheprovider --timeout=900 "
                                "--continue-on-collection-errors",
            "source_commits": [],
            "add_only": True,
        },
        "engines": [{
            "name": "vx",
            "path": "/verif/vx",
            "serves_properties": props,
            "kind_free_text": "hand-written explicit-state explorer (BFS, canonical state hashing with aliasing, "
                              "deviation bounding, pickle snapshots) driving the real WorkflowConductor through a "
                              "provider simulator; Python reference models stepped in lock-step",
        }],
        "checks": checks,
        "notes": "fix: commits in /repo (genuine defects repaired, recorded as 'fixed' in KNOWN_FINDINGS.json): "
                 + "; ".join(c[:7] + " " + c[41:] for c in commits if c),
        "not_applicable": [],
    }
    with open(os.path.join(ROOT, "MANIFEST.json"), "w") as f:
        json.dump(m, f, indent=1)
    try:
        import jsonschema
        jsonschema.validate(m, json.load(open("/root/.vp/MANIFEST.schema.json")))
        print("manifest valid; %d checks" % len(checks))
    except ImportError:
        print("jsonschema not available")


if __name__ == "__main__":
    main()
