#!/venv/bin/python
"""Markdown table of the confirmed seeded changes (DESIGN.md section 15).

    tools/seeded_table.py            print the table
    tools/seeded_table.py --update   replace the text between the SEEDED-TABLE markers in DESIGN.md
"""
import glob
import json
import os
import sys

ROOT = os.path.dirname(os.path.dirname(os.path.abspath(__file__)))
BEGIN, END = "<!-- SEEDED-TABLE-BEGIN -->", "<!-- SEEDED-TABLE-END -->"


def cell(x, n):
    x = " ".join(str(x or "").split()).replace("|", "/")
    return x if len(x) <= n else x[: n - 1].rstrip() + "…"


def table():
    rows = ["| id | breaks | change (author's summary, shortened) | needs | detected by (quick tier) |", "|---|---|---|---|---|"]
    n = det = 0
    for d in sorted(glob.glob(os.path.join(ROOT, "seeded", "*"))):
        m = json.load(open(os.path.join(d, "meta.json")))
        by = m.get("detected_by") or []
        n += 1
        det += bool(by)
        rows.append("| %s | %s | %s | %s | %s |" % (
            os.path.basename(d), m.get("breaks_property"), cell(m.get("summary"), 170),
            cell(m.get("needs_to_manifest"), 150), ", ".join(by) or "**missed**"))
    rows.append("")
    rows.append("%d confirmed changes, %d detected by at least one quick check, %d missed." % (n, det, n - det))
    return "\n".join(rows)


if __name__ == "__main__":
    t = table()
    if "--update" in sys.argv:
        p = os.path.join(ROOT, "DESIGN.md")
        s = open(p).read()
        i, j = s.index(BEGIN) + len(BEGIN), s.index(END)
        open(p, "w").write(s[:i] + "\n" + t + "\n" + s[j:])
    else:
        print(t)
