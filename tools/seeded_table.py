#!/venv/bin/python
"""Print the markdown table of confirmed seeded changes (DESIGN.md section 15)."""
import glob
import json
import os

ROOT = os.path.dirname(os.path.dirname(os.path.abspath(__file__)))
print("| id | breaks | change (author's summary, shortened) | needs | detected by |")
print("|---|---|---|---|---|")
for d in sorted(glob.glob(os.path.join(ROOT, "seeded", "*"))):
    m = json.load(open(os.path.join(d, "meta.json")))
    s = (m.get("summary") or "").replace("\n", " ").replace("|", "/")
    n = (m.get("needs_to_manifest") or "").replace("\n", " ").replace("|", "/")
    det = ", ".join(m.get("detected_by") or []) or "MISSED"
    print("| %s | %s | %s | %s | %s |" % (os.path.basename(d), m.get("breaks_property"), s[:160], n[:160], det))
