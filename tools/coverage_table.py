#!/venv/bin/python
"""Rewrite the measured-coverage table of DESIGN.md (section 12.5) from the evidence files."""
import glob
import json
import os

ROOT = os.path.dirname(os.path.dirname(os.path.abspath(__file__)))
BEGIN, END = "<!-- COVERAGE-TABLE-BEGIN -->", "<!-- COVERAGE-TABLE-END -->"


def main():
    rows = ["| property | tier | programs / cases | distinct states | transitions | complete histories | "
            "incomplete explorations | known findings hit | new | wall s |", "|---|---|---|---|---|---|---|---|---|---|"]
    for f in sorted(glob.glob(os.path.join(ROOT, "evidence", "C*.json"))):
        e = json.load(open(f))
        c = e["coverage"]
        rows.append("| %s | %s | %s | %s | %s | %s | %s | %s | %s | %s |" % (
            e["property_id"], e["tier"], c.get("programs", c.get("cases", c.get("evaluations"))),
            c.get("states", "-"), c.get("transitions", "-"), c.get("complete_histories", "-"),
            c.get("scenarios_incomplete_count", len(c.get("scenarios_incomplete", []) or [])),
            sum((c.get("known_findings_hit") or {}).values()) if isinstance(c.get("known_findings_hit"), dict) else "-",
            e.get("violations", 0), e.get("wall_s")))
    p = os.path.join(ROOT, "DESIGN.md")
    s = open(p).read()
    i, j = s.index(BEGIN) + len(BEGIN), s.index(END)
    open(p, "w").write(s[:i] + "\n" + "\n".join(rows) + "\n" + s[j:])


if __name__ == "__main__":
    main()
