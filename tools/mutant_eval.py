#!/venv/bin/python
"""Confirm a seeded change and run the checks against it.

usage: mutant_eval.py <src_dir with patch.diff/demo.py/meta.json> <id> [checks...]

Steps (all in a scratch worktree of /repo's HEAD outside /repo and /verif, removed afterwards):
  1. the patch applies to HEAD;  2. demo passes on clean HEAD and fails with the patch;
  3. the repository's test suite passes with the patch;  4. each listed check (default: the property's own)
  is run with VERIF_REPO pointing at the patched worktree; exit 1 + VIOLATION line = detected.
Results are written to /verif/seeded/<id>/ (patch.diff, demo.py, meta.json)."""
import json
import os
import shutil
import subprocess
import sys
import time

VERIF = os.path.dirname(os.path.dirname(os.path.abspath(__file__)))


def sh(cmd, cwd=None, env=None, timeout=3600):
    p = subprocess.run(cmd, shell=True, cwd=cwd, env=env, stdout=subprocess.PIPE, stderr=subprocess.STDOUT,
                       timeout=timeout)
    return p.returncode, p.stdout.decode(errors="replace")


def main():
    src, mid = sys.argv[1], sys.argv[2]
    meta = json.load(open(os.path.join(src, "meta.json")))
    prop = meta.get("property") or meta.get("breaks_property")
    prev = [r["check"] for r in meta.get("checks_run", [])]  # re-validation: the checks run before
    checks = sys.argv[3:] or ([prop] + [c for c in prev if c != prop])
    wt = "/tmp/mw/%s" % mid
    sh("git -C /repo worktree remove --force %s" % wt)
    os.makedirs("/tmp/mw", exist_ok=True)
    rc, out = sh("git -C /repo worktree add -q --detach %s HEAD" % wt)
    if rc:
        print(out)
        return 2
    res = {"id": mid, "property": prop, "ran": []}
    try:
        shutil.copytree(src, os.path.join(wt, "_seed", "m"))
        rc, out = sh("/venv/bin/python _seed/m/demo.py", cwd=wt, timeout=600)
        res["demo_clean_exit"] = rc
        rc, out = sh("git apply _seed/m/patch.diff || git apply --3way _seed/m/patch.diff", cwd=wt)
        res["patch_applies"] = rc == 0
        if rc:
            res["patch_error"] = out[-500:]
            return finish(res, src, mid, meta)
        rc, out = sh("/venv/bin/python _seed/m/demo.py", cwd=wt, timeout=600)
        res["demo_patched_exit"] = rc
        res["demo_patched_tail"] = out[-300:]
        rc, out = sh("/venv/bin/python -m pytest -q -p no:cacheprovider -x 2>&1 | tail -n 2", cwd=wt, timeout=900)
        if " passed" not in out or "failed" in out:
            # one test (temp-file based) is flaky when several suites run at once: run the suite again
            rc, out = sh("/venv/bin/python -m pytest -q -p no:cacheprovider -x 2>&1 | tail -n 2", cwd=wt, timeout=1800)
        res["tests_tail"] = out.strip()[-200:]
        res["tests_pass"] = " passed" in out and "failed" not in out
        env = dict(os.environ)
        env["VERIF_REPO"] = wt
        env["VERIF_PARTIAL"] = "1"  # never rewrite the evidence files from a run against a seeded change
        for c in checks:
            t0 = time.time()
            rc, out = sh("./check %s --tier quick" % c, cwd=VERIF, env=env, timeout=3600)
            lines = [l for l in out.splitlines() if l.startswith("VIOLATION") or l.startswith("  kind=")]
            res["ran"].append({"check": c, "exit": rc, "wall_s": round(time.time() - t0, 1),
                               "violations": lines[:6], "tail": out.strip().splitlines()[-1][:300] if out.strip() else ""})
    finally:
        sh("git -C /repo worktree remove --force %s" % wt)
        shutil.rmtree(wt, ignore_errors=True)
    return finish(res, src, mid, meta)


def finish(res, src, mid, meta):
    valid = (res.get("patch_applies") and res.get("demo_clean_exit") == 0 and res.get("demo_patched_exit") not in (0, None)
             and res.get("tests_pass"))
    res["confirmed"] = bool(valid)
    res["detected_by"] = [r["check"] for r in res.get("ran", []) if r["exit"] == 1]
    print(json.dumps(res, indent=1))
    if valid:
        d = os.path.join(VERIF, "seeded", mid)
        os.makedirs(d, exist_ok=True)
        for f in ("patch.diff", "demo.py"):
            if os.path.abspath(src) != os.path.abspath(d):
                shutil.copy(os.path.join(src, f), os.path.join(d, f))
        if meta.get("note"):
            pass
        m = {
            "breaks_property": meta.get("property") or meta.get("breaks_property"),
            "summary": meta.get("summary"),
            "needs_to_manifest": meta.get("needs") or meta.get("needs_to_manifest"),
            "files": meta.get("files"),
            "confirmed": {
                "patch_applies_to_repo_head": True,
                "demo_exit_on_clean_head": res["demo_clean_exit"],
                "demo_exit_with_patch": res["demo_patched_exit"],
                "test_suite_with_patch": res["tests_tail"],
            },
            "checks_run": res["ran"],
            "detected_by": res["detected_by"],
        }
        if meta.get("note"):
            m["note"] = meta["note"]
        with open(os.path.join(d, "meta.json"), "w") as f:
            json.dump(m, f, indent=1)
    return 0


if __name__ == "__main__":
    sys.exit(main())
