"""Reference model: a token game for control flow with causal version maps for
data flow, stepped in lock-step with the conductor by the monitors.

The reference state (``g``) is plain JSON so that it can live in the ghost part
of an explorer state. Nothing here calls into the engine; the only things read
from the implementation are (a) the content of ``routes[r]`` (to translate a
route number into a lineage), (b) ``contexts[0]`` (the rendered inputs/vars),
and (c) - only for expressions outside the closed vocabulary - the engine's own
truth value of a transition condition (counted as ``trusted``).
"""

import copy
import json

from vx import refdef as rd

ABENDED_ACTION = ("failed", "timeout", "abandoned")


def task_status_of(action_status):
    if action_status in ABENDED_ACTION:
        return "failed"
    return action_status


def lkey(task, lineage):
    return "%s|%s" % (task, json.dumps(lineage))


class RefViolation(Exception):
    def __init__(self, kind, sig, detail):
        Exception.__init__(self, kind)
        self.kind = kind
        self.sig = sig
        self.detail = detail


class RefOff(Exception):
    """The reference stops following this history (not a violation)."""


def new_state():
    return {
        "tok": [],  # [task, lineage, ctx|None, attempt, is_retry, src_task|None, optional, cleanup]
        "run": [],  # [task, lineage, ctx, attempt, items_state|None]
        "arr": {},  # lkey(join, lineage) -> {"from": [[task, ctx], ...], "fired": n, "pending": bool}
        "execs": {},  # lkey -> number of executions started (attempts of one visit count once)
        "fatal": [],  # reasons the workflow must end failed
        "trusted": 0,
        "off": None,  # reason the reference stopped following this history
        "extra_join_runs": 0,
        "init": None,
        "vid": 0,
        "vals": {},  # version id -> value (to recognise a stale value when one is offered)
        "last": {},  # lkey -> [ctx, status] of the latest completed execution (rerun requests)
        "passes": {},  # lkey(transition id, lineage) -> times taken (loop passes into a split task)
        "rmap": {"0": []},  # engine route number -> reference lineage (bound when the route appears)
        "unhandled": [],  # [task, lineage] of failed executions nothing handled (default rerun set)
        "handled_terminal": [],  # failed executions handled by a command only (no successor task)
    }


class Ref(object):
    """Operations on a reference state for one definition."""

    def __init__(self, wf, strict_join=True, track_ctx=True):
        self.d = rd.RefDef(wf)
        self.strict_join = strict_join
        self.track_ctx = track_ctx

    # ------------------------------------------------------------ contexts
    @staticmethod
    def init_ctx(values):
        return {k: [v, "init:%s" % k, []] for k, v in values.items()}

    @staticmethod
    def plain(ctx):
        if ctx is None:
            return None
        return {k: b[0] for k, b in ctx.items()}

    def publish(self, g, ctx, task, attempt_id, tidx, pubs, result):
        """Overlay one transition's publishes on a copy of ctx (sequentially)."""
        out = dict(ctx)
        published = {}
        for var, ast in pubs:
            if var == "$inline":
                # inline publish string: not interpreted
                return None, None
            val = rd.eval_expr(ast, result, self.plain(out))
            old = out.get(var)
            sup = (old[2] + [old[1]]) if old else []
            vid = "%s:%s:%s" % (attempt_id, tidx, var)
            out[var] = [val, vid, sup]
            g["vals"][vid] = val
            published[var] = val
        return out, published

    @staticmethod
    def merge_arrivals(ctxs):
        """Merge arriving contexts in arrival order (see DESIGN C06)."""
        cur = None
        for c in ctxs:
            if c is None:
                return None
            if cur is None:
                cur = dict(c)
                continue
            for var, b in c.items():
                cb = cur.get(var)
                if cb is None:
                    cur[var] = b
                    continue
                if b[1] == cb[1]:
                    continue
                if cb[1] in b[2]:
                    cur[var] = b  # arriving superseded the current one
                elif b[1] in cb[2]:
                    continue  # arriving is older (merely inherited)
                else:
                    # independent values: later arrival wins
                    cur[var] = [b[0], b[1], sorted(set(b[2]) | set(cb[2]) | {cb[1]})]
        return cur

    # ------------------------------------------------------------ lineage
    @staticmethod
    def strip(lineage):
        """Lineage without the pass counters = the content of the engine's route."""
        return [x.split("#", 1)[0] for x in lineage]

    def child_lineage(self, lineage, src, tidx, tgt, g=None):
        """Entering a multi-referenced task outside a cycle opens a new lineage - every time: a second pass
        of a loop through the same transition is a different lineage (element = transition id # pass)."""
        d = self.d
        if not d.is_split(tgt) or d.in_cycle(tgt):
            return lineage
        tid = "%s__t%d" % (src, d.edge_key(src, tidx, tgt))
        if tid in self.strip(lineage):
            return lineage
        n = 0
        if g is not None:
            k = lkey(tid, lineage)
            n = g["passes"].get(k, 0)
            g["passes"][k] = n + 1
        return lineage + ["%s#%d" % (tid, n)]

    # ------------------------------------------------------------ start
    def start(self, g, init_values):
        g["init"] = True
        ctx0 = self.init_ctx(init_values) if self.track_ctx else None
        if ctx0:
            for k, b in ctx0.items():
                g["vals"][b[1]] = b[0]
        for r in self.d.roots():
            g["tok"].append([r, [], ctx0, 0, False, None, False])

    # ------------------------------------------------------------ offers
    def join_ctx(self, g, task, lineage):
        a = g["arr"].get(lkey(task, lineage))
        if not a:
            return None
        return self.merge_arrivals([x[1] for x in a["from"]])

    def offer(self, g, task, lineage, n_actions_info=None):
        """The engine offers (task, lineage). Returns the run entry created / continued.

        Raises RefViolation when nothing in the reference justifies it."""
        d = self.d
        has_items = bool(d.tasks[task]["with"]) if task in d.tasks else False
        if has_items:
            for r in g["run"]:
                if r[0] == task and r[1] == lineage and r[4] is not None and not r[4].get("done"):
                    return r, False
        order = sorted(range(len(g["tok"])), key=lambda i: (bool(len(g["tok"][i]) > 6 and g["tok"][i][6]), i))
        for i in order:
            t = g["tok"][i]
            if t[0] == task and t[1] == lineage:
                del g["tok"][i]
                g["last_consumed_optional"] = bool(len(t) > 6 and t[6])
                ctx = t[2]
                if d.is_join(task):
                    k = lkey(task, lineage)
                    a = g["arr"].get(k)
                    if a is not None and not t[4]:
                        ctx = self.join_ctx(g, task, lineage)
                        a["fired"] += 1
                        a["pending"] = False
                        if d.in_cycle(task):
                            a["from"] = []
                run = [task, lineage, ctx, t[3], {"done": False} if has_items else None]
                g["run"].append(run)
                if not t[4]:
                    k = lkey(task, lineage)
                    g["execs"][k] = g["execs"].get(k, 0) + 1
                return run, True
        # No token.
        if task in d.tasks and d.is_join(task):
            k = lkey(task, lineage)
            a = g["arr"].get(k)
            n = len({x[0] for x in a["from"]}) if a else 0
            req = d.join_requirement(task)
            inbound = len(d.inbound_tasks(task))
            sig = {
                "task_is_join": True,
                "barrier": "all" if d.tasks[task]["join"] == "all" else "int",
                "barrier_lt_inbound": req < inbound,
                "arrivals_ge_requirement": n >= req,
                "already_ran": bool(a and a["fired"]),
                "in_cycle": d.in_cycle(task),
            }
            if not self.strict_join and n >= req:
                # C01 does not judge join uniqueness (C07 does): stop following this history.
                g["extra_join_runs"] += 1
                raise RefOff("join %s offered again after it already ran (C07 judges this)" % task)
            kind = "join_redispatched" if (a and a["fired"]) else "join_barrier_not_met"
            raise RefViolation(kind, sig, "join %s offered on lineage %s with %d/%d arrivals, fired=%s"
                               % (task, lineage, n, req, a["fired"] if a else 0))
        running = any(r[0] == task and r[1] == lineage for r in g["run"])
        ran = g["execs"].get(lkey(task, lineage), 0)
        raise RefViolation(
            "unjustified_offer",
            {
                "task_is_join": False,
                "same_lineage_running": running,
                "executions_so_far": min(ran, 2),
                "known_task": task in d.tasks,
                "has_items": has_items,
                "has_retry_policy": bool(task in d.tasks and d.retry_policy(task)),
            },
            "task %s offered on lineage %s but no satisfied transition (token) is due" % (task, lineage),
        )

    # ------------------------------------------------------------ completion
    def find_run(self, g, task, lineage):
        for i, r in enumerate(g["run"]):
            if r[0] == task and r[1] == lineage:
                return i
        return None

    def complete(self, g, task, lineage, action_status, result, engine_rec=None, wf_active=True,
                 engine_retried=None):
        """A task execution completed. engine_rec: the engine's record (for trusted reads).

        Returns a dict describing what the reference decided."""
        d = self.d
        i = self.find_run(g, task, lineage)
        if i is None:
            raise RefViolation("completion_without_execution", {"task_known": task in d.tasks},
                               "completion of %s on %s that the reference never started" % (task, lineage))
        run = g["run"][i]
        ctx = run[2]
        attempt = run[3]
        status = task_status_of(action_status)
        info = {"task": task, "status": status, "retried": False, "satisfied": [], "trusted": 0,
                "targets": [], "handled": False, "fail_cmd": False, "published": {}}
        # ---- retry policy
        pol = d.retry_policy(task)
        if pol is not None and status in ("succeeded", "failed"):
            count = pol["count"]
            if isinstance(count, str):
                ast = rd.parse_expr(count)
                count = rd.eval_expr(ast, result, self.plain(ctx))
            will = None
            if isinstance(count, int) and not isinstance(count, bool):
                if attempt >= count:
                    will = False
                elif not wf_active:
                    will = False
                else:
                    if pol["when"] == "$default":
                        will = status == "failed"
                    else:
                        will = rd.eval_cond(pol["when"], status, result, self.plain(ctx))
                        if will is None and status == "failed" and False:
                            will = None
            if will is None:
                g["trusted"] += 1
                info["trusted"] += 1
                will = bool(engine_retried)
            info["retry_expected"] = will
            if will:
                del g["run"][i]
                g["tok"].append([task, lineage, ctx, attempt + 1, True, None, False])
                info["retried"] = True
                return info
        del g["run"][i]
        # ---- transitions
        plain = self.plain(ctx)
        attempt_id = "%s#%d" % (task, g["vid"])
        g["vid"] += 1
        handled = False
        for tidx, tr in enumerate(d.tasks[task]["next"]):
            val = rd.eval_cond(tr["when"], status, result, plain)
            if val is None:
                # outside the vocabulary: read the engine's own decision
                g["trusted"] += 1
                info["trusted"] += 1
                val = self._engine_truth(engine_rec, task, tidx, tr)
                if val is None:
                    g["off"] = "condition of %s.next[%d] not interpretable" % (task, tidx)
                    return info
            if not val:
                continue
            info["satisfied"].append(tidx)
            for tgt in tr["do"]:
                if tgt == "retry":
                    continue
                if tgt == "continue":
                    continue
                handled = True
                if tgt == "noop":
                    continue
                if tgt == "fail":
                    info["fail_cmd"] = True
                    g["fatal"].append("fail command after %s" % task)
                    continue
                if tgt not in d.tasks:
                    continue
                if ctx is not None:
                    new_ctx, published = self.publish(g, ctx, task, attempt_id, tidx, tr["publish"], result)
                    if published:
                        info["published"].setdefault(str(tidx), published)
                else:
                    new_ctx = None
                if d.is_join(tgt):
                    k = lkey(tgt, lineage)
                    a = g["arr"].setdefault(k, {"from": [], "fired": 0, "pending": False})
                    a["from"].append([task, new_ctx])
                    n = len({x[0] for x in a["from"]})
                    req = d.join_requirement(tgt)
                    info["targets"].append([tgt, lineage, "arrival %d/%d" % (n, req)])
                    if n >= req and not a["pending"] and (a["fired"] == 0 or d.in_cycle(tgt)):
                        a["pending"] = True
                        g["tok"].append([tgt, lineage, None, 0, False, task, False])
                else:
                    nl = self.child_lineage(lineage, task, tidx, tgt, g)
                    g["tok"].append([tgt, nl, new_ctx, 0, False, task, False, "fail" in tr["do"]])
                    info["targets"].append([tgt, nl, "token"])
        info["handled"] = handled
        g["last"][lkey(task, lineage)] = [ctx, status]
        if status == "failed" and not handled:
            g["fatal"].append("unhandled failure of %s" % task)
            g["unhandled"].append([task, lineage])
        elif status == "failed" and not info["targets"]:
            g["handled_terminal"].append([task, lineage])
        return info

    def _engine_truth(self, rec, task, tidx, tr):
        if rec is None:
            return None
        nxt = rec.get("next") or {}
        vals = []
        for tgt in tr["do"]:
            if tgt == "retry":
                continue
            try:
                key = "%s__t%d" % (tgt, self.d.edge_key(task, tidx, tgt))
            except KeyError:
                continue
            if key in nxt:
                vals.append(bool(nxt[key]))
        if not vals:
            return None
        return all(vals) if len(set(vals)) == 1 else None

    # ------------------------------------------------------------ end of run
    def pending_unconsumed(self, g):
        return [[t[0], t[1]] for t in g["tok"] if not (len(t) > 6 and t[6])]

    def pending_cleanup(self, g):
        """Due executions of tasks listed beside a satisfied fail command (documented to run after the failure)."""
        return [[t[0], t[1]] for t in g["tok"] if len(t) > 7 and t[7]]

    def partial_joins(self, g):
        """Joins with >=1 arrival, below requirement, never fired."""
        out = []
        for k, a in g["arr"].items():
            task = k.split("|", 1)[0]
            lineage = json.loads(k.split("|", 1)[1])
            n = len({x[0] for x in a["from"]})
            if a["fired"] == 0 and not a["pending"] and 0 < n < self.d.join_requirement(task):
                out.append([task, lineage, n])
        return out


def clone(g):
    return copy.deepcopy(g)
