"""C05 (persist/restore unobservable) and C18 (append-only history)."""

import json

from orquesta import conducting

from vx.explore import Monitor
from vx.sim import st, summarize_offer

COMPLETED = set(st.COMPLETED_STATUSES)
ACTIVE = set(st.ACTIVE_STATUSES)


def first_diff(a, b, path=""):
    """Path of the first difference between two JSON-like values."""
    if type(a) is not type(b):
        return path or "/"
    if isinstance(a, dict):
        ka, kb = list(a.keys()), list(b.keys())
        if sorted(map(str, ka)) != sorted(map(str, kb)):
            return path + "/{keys}"
        for k in ka:
            d = first_diff(a[k], b[k], "%s/%s" % (path, k))
            if d:
                return d
        if ka != kb:
            return path + "/{key-order}"
        return None
    if isinstance(a, list):
        if len(a) != len(b):
            return path + "/[len]"
        for i, (x, y) in enumerate(zip(a, b)):
            d = first_diff(x, y, "%s/%d" % (path, i))
            if d:
                return d
        return None
    return None if a == b else (path or "/")


def generic_path(p):
    """Replace indices by '*' so that a path is a signature, not an address."""
    parts = []
    for x in (p or "").split("/"):
        parts.append("*" if x.isdigit() else x)
    return "/".join(parts)


class PersistTwin(Monitor):
    """Every move is run on the live conductor and on deserialize(serialize(live))."""

    name = "c05"
    prop = "C05"

    def __init__(self, scn, cfg):
        super(PersistTwin, self).__init__(scn, cfg)
        self.stats = {"twin_steps": 0, "roundtrips": 0}
        self._items = set(scn.meta.get("items_tasks", []))

    def _features(self, sim, move, res):
        task = None
        if move[0] in ("complete", "release", "hold") and res.extra.get("action"):
            task = res.extra["action"][0]
        return {"op": move[0], "task_has_items": task in self._items if task else None}

    def on_step(self, pre, move, sim, res, post, ctx):
        if move[0] == "crash":
            return []
        twin = ctx.fresh_pre()
        try:
            twin.c = conducting.WorkflowConductor.deserialize(twin.c.serialize())
        except Exception as e:
            return [{"kind": "restore_raises", "sig": {"exc": type(e).__name__}, "detail": str(e)}]
        tres = twin.apply(move, check_pure=False)
        self.stats["twin_steps"] += 1
        feats = self._features(sim, move, res)
        if (tres.exc_type or None) != (res.exc_type or None):
            return [{
                "kind": "live_restored_diverge",
                "sig": dict(feats, where="exception", live=res.exc_type, restored=tres.exc_type),
                "detail": {"live": res.exc, "restored": tres.exc},
            }]
        if move[0] == "dispatch" and tres.offers != res.offers:
            return [{
                "kind": "live_restored_diverge",
                "sig": dict(feats, where="offers"),
                "detail": {"live": res.offers, "restored": tres.offers},
            }]
        try:
            a = sim.c.serialize()
            b = twin.c.serialize()
        except Exception as e:
            return [{"kind": "serialize_raises", "sig": {"exc": type(e).__name__}, "detail": str(e)}]
        if a != b:
            d = first_diff(a, b)
            return [{
                "kind": "live_restored_diverge",
                "sig": dict(feats, where=generic_path(d)),
                "detail": {"first_difference": d},
            }]
        # persisting a restored conductor reproduces the persisted form
        self.stats["roundtrips"] += 1
        try:
            r = conducting.WorkflowConductor.deserialize(a)
            c2 = r.serialize()
            offers_r = [summarize_offer(t) for t in r.get_next_tasks()] if move[0] == "dispatch" else None
        except Exception as e:
            return [{"kind": "restore_raises", "sig": {"exc": type(e).__name__}, "detail": str(e)}]
        if c2 != a:
            d = first_diff(a, c2)
            return [{
                "kind": "roundtrip_not_identity",
                "sig": {"where": generic_path(d)},
                "detail": {"first_difference": d},
            }]
        return []


class AppendOnly(Monitor):
    """C18: consecutive persisted states only grow; started/decided records are frozen."""

    name = "c18"
    prop = "C18"

    def __init__(self, scn, cfg):
        super(AppendOnly, self).__init__(scn, cfg)
        self.stats = {"pairs_compared": 0}
        self._items = set(scn.meta.get("items_tasks", []))

    @staticmethod
    def decided(rec):
        return rec.get("status") in COMPLETED and (bool(rec.get("next")) or rec.get("term"))

    PROBE_STATUSES = ("failed", "succeeded", "canceled", "canceling", "pausing")
    PROBE_REQUESTS = ("pausing", "paused", "canceling", "canceled", "running", "resuming")

    def on_state(self, sim, post, ctx):
        """Status requests the lifecycle may reject, tried on a copy wherever an execution is still
        active beside finished ones (the explorer itself only issues admissible requests)."""
        state = post.get("state")
        if not state or post["status"] not in self.PROBE_STATUSES:
            return []
        if not any(r.get("status") in ACTIVE for r in state["sequence"]):
            return []
        for s in self.PROBE_REQUESTS:
            twin = ctx.fresh_pre()
            twin.apply(["req", s], check_pure=False)
            self.stats["request_probes"] = self.stats.get("request_probes", 0) + 1
            out = self._compare(post, twin.view(), "req:%s" % ("rejected" if twin.status == post["status"] else "accepted"))
            if out:
                out[0]["sig"]["workflow_status"] = post["status"]
                return out
        return []

    def on_step(self, pre, move, sim, res, post, ctx):
        return self._compare(pre, post, move[0])

    def _compare(self, pre, post, op):
        a, b = pre.get("state"), post.get("state")
        if not a or not b:
            return []
        self.stats["pairs_compared"] += 1

        def v(kind, field, rec=None, detail=None):
            sig = {"field": field, "op": op}
            if rec is not None:
                sig["record_has_items"] = rec["id"] in self._items
                sig["record_status"] = rec.get("status")
            return [{"kind": kind, "sig": sig, "detail": detail}]

        if b["contexts"][: len(a["contexts"])] != a["contexts"]:
            return v("history_rewritten", "contexts", detail={"pre": a["contexts"], "post": b["contexts"]})
        if b["routes"][: len(a["routes"])] != a["routes"]:
            return v("history_rewritten", "routes", detail={"pre": a["routes"], "post": b["routes"]})
        if len(b["sequence"]) < len(a["sequence"]):
            return v("history_rewritten", "sequence-length")
        for i, ra in enumerate(a["sequence"]):
            rb = b["sequence"][i]
            if ra["id"] != rb["id"] or ra["route"] != rb["route"]:
                return v("history_rewritten", "sequence-order", ra)
            if ra.get("status") is None:
                continue  # not started yet
            if ra["ctxs"]["in"] != rb["ctxs"]["in"]:
                return v("started_record_changed", "ctxs.in", ra,
                         {"index": i, "pre": ra["ctxs"]["in"], "post": rb["ctxs"]["in"]})
            if ra["prev"] != rb["prev"]:
                return v("started_record_changed", "prev", ra,
                         {"index": i, "pre": ra["prev"], "post": rb["prev"]})
            if self.decided(ra):
                if rb.get("status") != ra.get("status"):
                    return v("decided_record_changed", "status", ra,
                             {"index": i, "pre": ra.get("status"), "post": rb.get("status")})
                if rb.get("next") != ra.get("next"):
                    return v("decided_record_changed", "next", ra,
                             {"index": i, "pre": ra.get("next"), "post": rb.get("next")})
                if (ra.get("ctxs") or {}).get("out") != (rb.get("ctxs") or {}).get("out"):
                    return v("decided_record_changed", "ctxs.out", ra)
                ka = {k: x for k, x in ra.items() if k not in ("term", "ignore")}
                kb = {k: x for k, x in rb.items() if k not in ("term", "ignore")}
                if ka != kb:
                    which = sorted(k for k in set(ka) | set(kb) if ka.get(k) != kb.get(k))[0]
                    return v("decided_record_changed", which, ra,
                             {"index": i, "pre": ka.get(which), "post": kb.get(which)})
        return []
