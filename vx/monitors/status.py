"""C02 (truthful status), C04 (terminal finality, rejected requests), C10 (cancellation)."""

import json

from vx import refdef as rd
from vx.explore import Monitor
from vx.monitors.flow import FlowBase
from vx.monitors.persist import first_diff, generic_path
from vx.sim import st, ALL_REQUEST_STATUSES

COMPLETED = set(st.COMPLETED_STATUSES)
TERMINAL = (st.SUCCEEDED, st.FAILED, st.CANCELED)


def non_failure_errors(errors):
    """Error entries other than the plain 'action failed' log (i.e. run-time/engine errors)."""
    return [e for e in errors if not e.get("message", "").startswith("Execution failed.")]


class TruthfulStatus(FlowBase):
    """C02. The reference supplies `fatal` (unhandled failure / fail command)."""

    name = "c02"
    prop = "C02"
    strict_join = False
    track_ctx = True

    def __init__(self, scn, cfg):
        super(TruthfulStatus, self).__init__(scn, cfg)
        self.stats.update({"states_checked": 0, "terminal_points": 0})

    def on_ref_violation(self, e, move, sim, res, post):
        sim.ghost[self.name]["off"] = "control-flow divergence: %s" % e.kind
        return []

    def on_step(self, pre, move, sim, res, post, ctx):
        out = super(TruthfulStatus, self).on_step(pre, move, sim, res, post, ctx)
        if out:
            return out
        if post["state"] is None or res.exc is not None:
            return []
        g = sim.ghost[self.name]
        status = post["status"]
        infl = sim.h["inflight"]
        self.stats["states_checked"] += 1

        def v(kind, **sig):
            sig.setdefault("status", status)
            sig.setdefault("pause_req", sim.h["pause_req"])
            sig.setdefault("cancel_req", sim.h["cancel_req"])
            sig.setdefault("after_partial_join_rerun", sim.h["rejoin"])
            sig.setdefault("with_items_item_went_pending", bool(sim.h.get("item_went_pending")))
            return [{"kind": kind, "sig": sig,
                     "detail": {"inflight": list(infl), "fatal": g["fatal"], "status": status}}]

        if status == st.SUCCEEDED:
            if infl or sim.h["held"]:
                return v("succeeded_with_action_in_flight")
            open_recs = [r["id"] for r in post["state"]["sequence"] if r.get("status") not in COMPLETED]
            if open_recs:
                return v("succeeded_with_incomplete_task")
            if move[0] == "dispatch" and res.offers and pre["status"] == st.SUCCEEDED:
                return v("succeeded_with_task_on_offer")
            if not g["off"] and g["fatal"]:
                kinds = sorted({("fail_command" if f.startswith("fail command") else "unhandled_failure")
                                for f in g["fatal"]})
                return v("succeeded_despite_failure", fatal=kinds, paused_before=bool(sim.h.get("ever_paused")))
        if status in (st.PAUSED, st.CANCELED) and infl:
            return v("resting_status_with_action_in_flight")
        if status in (st.PAUSING, st.CANCELING) and not infl and not sim.h["held"]:
            # the property demands an action in flight whenever pausing/canceling is reported
            return v("transient_status_with_nothing_in_flight",
                     retrying=any(r.get("status") == "retrying" for r in post["state"]["sequence"]))
        # terminal point: nothing in flight, terminal status
        if status in TERMINAL and not infl and not sim.h["held"] and not g["off"]:
            self.stats["terminal_points"] += 1
            if g["fatal"] and not sim.h["cancel_req"] and status != st.FAILED:
                kinds = sorted({("fail_command" if f.startswith("fail command") else "unhandled_failure")
                                for f in g["fatal"]})
                return v("failure_did_not_fail_workflow", fatal=kinds)
            if non_failure_errors(post["errors"]) and not sim.h["cancel_req"] and status != st.FAILED:
                return v("runtime_error_did_not_fail_workflow")
        return []

    def check_other(self, g, pre, move, sim, res, post):
        if move[0] == "req" and move[1] in (st.PAUSING, st.PAUSED) and res.exc is None:
            sim.h["ever_paused"] = True
        return []


class TerminalFinal(Monitor):
    """C04: after the first terminal status nothing but clean-up tasks is offered, late
    reports are absorbed, the status is final; rejected requests have no effect."""

    name = "c04"
    prop = "C04"

    def __init__(self, scn, cfg):
        super(TerminalFinal, self).__init__(scn, cfg)
        d = rd.RefDef(scn.wf)
        self.cleanup = set()
        for t in d.order:
            for tr in d.tasks[t]["next"]:
                if "fail" in tr["do"]:
                    self.cleanup |= {x for x in tr["do"] if x in d.tasks}
        self._items = set(scn.meta.get("items_tasks", []))
        self.stats = {"probes": 0, "probes_rejected": 0, "post_terminal_steps": 0}

    def init_ghost(self, sim):
        return {"term": None}

    def on_step(self, pre, move, sim, res, post, ctx):
        g = sim.ghost[self.name]
        op = move[0]
        status = post["status"]
        if g["term"] is None:
            if status in TERMINAL:
                g["term"] = status
            at_answer = res.extra.get("status_at_answer")
            if op == "dispatch" and res.offers and at_answer in TERMINAL:
                # the very answer that left the workflow in a terminal status carries offers
                extra = [o["id"] for o in res.offers if not (at_answer == st.FAILED and o["id"] in self.cleanup)]
                if extra:
                    return [{"kind": "offer_with_terminal_status", "sig": {"terminal": at_answer},
                             "detail": {"offered": extra}}]
            return []
        T = g["term"]
        self.stats["post_terminal_steps"] += 1
        if op == "rerun":
            if res.exc is None:
                g["term"] = None
            return []

        def v(kind, **sig):
            sig.setdefault("terminal", T)
            sig.setdefault("op", op)
            sig.setdefault("after_partial_join_rerun", sim.h["rejoin"])
            return [{"kind": kind, "sig": sig, "detail": {"status_now": status, "exc": res.exc}}]

        if res.exc is not None and op in ("complete", "release", "hold", "dispatch", "render", "crash"):
            return v("exception_after_terminal", exc_type=res.exc_type)
        if op == "dispatch" and res.offers:
            extra = [o["id"] for o in res.offers if not (T == st.FAILED and o["id"] in self.cleanup)]
            if extra:
                return v("offer_after_terminal")
        if status != T:
            allowed = T == st.SUCCEEDED and status == st.FAILED and (
                op == "render" or (op == "req" and move[1] == st.FAILED))
            if not allowed:
                return v("terminal_status_changed", new=status)
            g["term"] = status
        return []

    def on_state(self, sim, post, ctx):
        """Probe every status request in this state (effects are discarded)."""
        if post["state"] is None:
            return []
        cur = post["status"]
        for s in ALL_REQUEST_STATUSES:
            twin = ctx.fresh_pre()
            before = twin.c.serialize()
            r = twin.apply(["req", s], check_pure=False)
            after = twin.c.serialize()
            self.stats["probes"] += 1
            if r.exc is not None:
                self.stats["probes_rejected"] += 1
                if after != before:
                    d = first_diff(before, after)
                    tasks = [x["id"] for x in post["state"]["sequence"] if x.get("status") in st.ACTIVE_STATUSES]
                    return [{
                        "kind": "rejected_request_changed_state",
                        "sig": {"request": s, "workflow_status": cur, "where": generic_path(d),
                                "active_items_task": any(t in self._items for t in tasks)},
                        "detail": {"first_difference": d, "exc": r.exc},
                    }]
                continue
            if cur in TERMINAL:
                new = twin.status
                if s != cur and s is not None and not (cur == st.SUCCEEDED and s == st.FAILED):
                    return [{
                        "kind": "forbidden_request_not_rejected",
                        "sig": {"request": s, "terminal": cur},
                        "detail": "request_workflow_status(%r) on a %s workflow returned without an error" % (s, cur),
                    }]
                ok = new == cur or (cur == st.SUCCEEDED and new == st.FAILED and s == st.FAILED)
                if not ok:
                    return [{
                        "kind": "request_changed_terminal_status",
                        "sig": {"request": s, "terminal": cur, "new": new},
                        "detail": "",
                    }]
                if new == cur and after != before:
                    d = first_diff(before, after)
                    return [{
                        "kind": "noop_request_changed_state",
                        "sig": {"request": s, "terminal": cur, "where": generic_path(d)},
                        "detail": {"first_difference": d},
                    }]
        return []


class CancelStops(Monitor):
    """C10."""

    name = "c10"
    prop = "C10"

    def __init__(self, scn, cfg):
        super(CancelStops, self).__init__(scn, cfg)
        self.stats = {"post_cancel_steps": 0, "canceled_endings": 0, "renders": 0}
        # rendering must succeed when every variable the output reads has a declared default (input / vars):
        # whatever was published, those names always resolve
        declared = set()
        for item in (scn.wf.get("input") or []) + (scn.wf.get("vars") or []):
            if isinstance(item, dict):
                declared |= set(item.keys())
            else:
                declared.add(item)
        self.output_always_renders = True
        for item in scn.wf.get("output") or []:
            (k, val), = item.items()
            ast = rd.parse_expr(val)
            if ast[0] == "lit":
                continue
            if ast[0] in ("ctx", "inc") and ast[1] in declared:
                continue
            self.output_always_renders = False

    def on_step(self, pre, move, sim, res, post, ctx):
        if not sim.h["cancel_req"] or post["state"] is None:
            return []
        op = move[0]
        status = post["status"]
        infl = sim.h["inflight"]
        self.stats["post_cancel_steps"] += 1
        was_cancel = pre["h"]["cancel_req"]

        def v(kind, **sig):
            sig.setdefault("status", status)
            sig.setdefault("after_partial_join_rerun", sim.h["rejoin"])
            sig.setdefault("with_items_item_went_pending", bool(sim.h.get("item_went_pending")))
            return [{"kind": kind, "sig": sig,
                     "detail": {"inflight": list(infl), "errors": post["errors"], "move": move[:4]}}]

        if res.exc is not None and op != "req":
            return v("exception_after_cancel", exc_type=res.exc_type, op=op)
        if op == "dispatch" and res.offers:
            return v("offer_after_cancel", has_items=any("items_count" in o for o in res.offers))
        rt = non_failure_errors(post["errors"])
        only_unreachable = bool(rt) and all("UnreachableJoinError" in e.get("message", "") for e in rt)
        if status == st.SUCCEEDED:
            return v("canceled_workflow_succeeded")
        if status == st.FAILED:
            if pre["status"] == st.FAILED and was_cancel:
                return []
            if not rt:
                return v("cancel_turned_failed", cause="no_error_logged")
            if only_unreachable:
                return v("cancel_turned_failed", cause="unreachable_join")
            return []  # a run-time error was logged: C11 allows failed
        if status == st.CANCELING and not infl and not sim.h["held"]:
            return v("canceling_with_nothing_in_flight",
                     retrying=any(r.get("status") == "retrying" for r in post["state"]["sequence"]))
        if status == st.CANCELED and infl:
            return v("canceled_with_action_in_flight")
        if status not in (st.CANCELING, st.CANCELED):
            return v("left_cancel_statuses")
        if status == st.CANCELED and not infl:
            self.stats["canceled_endings"] += 1
        if op == "render":
            self.stats["renders"] += 1
            if status != st.CANCELED:
                return v("render_changed_canceled")
            if len(post["errors"]) > len(pre["errors"]) and self.output_always_renders:
                done = any(r.get("status") in COMPLETED for r in post["state"]["sequence"])
                return v("render_of_canceled_workflow_logged_error", some_task_completed=done,
                         canceled_by_request_at_rest=bool(sim.h.get("canceled_by_request_at_rest")),
                         new_error=post["errors"][-1].get("message", "").split(":")[0])
        return []
