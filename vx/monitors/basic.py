"""Reference-free monitors: quiescence (C03), query purity (C19c), exceptions (C15)."""

import traceback

from vx.explore import Monitor
from vx.sim import st

RESTING = (st.SUCCEEDED, st.FAILED, st.CANCELED, st.PAUSED)

DOCUMENTED_REJECTIONS = {
    "req": ("InvalidWorkflowStatusTransition", "InvalidStatusTransition", "InvalidStatus"),
    "rerun": ("WorkflowIsActiveAndNotRerunableError", "InvalidTaskRerunRequest"),
}


def exc_site(e):
    """Innermost frame inside the orquesta package (function name)."""
    tb = traceback.extract_tb(e.__traceback__)
    site = None
    for fr in tb:
        if "/orquesta/" in fr.filename and "/tests/" not in fr.filename:
            site = "%s:%s" % (fr.filename.split("/orquesta/")[-1], fr.name)
    return site


class Quiescence(Monitor):
    """C03: nothing in flight and nothing on offer => resting status."""

    name = "quiescence"
    prop = "C03"

    def __init__(self, scn, cfg):
        super(Quiescence, self).__init__(scn, cfg)
        self.stats = {"quiescent_points": 0}

    def on_step(self, pre, move, sim, res, post, ctx):
        if move[0] != "dispatch" or res.exc is not None:
            return []
        if res.offers or sim.h["inflight"] or sim.h["held"]:
            return []  # a pending action is still outstanding at the provider
        self.stats["quiescent_points"] += 1
        status = post["status"]
        held = bool(sim.h["held"])
        ok = status in RESTING
        if status == st.PAUSED and not (sim.h["pause_req"] or held or sim.h.get("pend_pause")
                                        or self._paused_task(post)):
            ok = False
        if ok:
            return []
        ri = sim.h.get("rerun_info") or {}
        return [
            {
                "kind": "stuck",
                "sig": {
                    "resumed_while_pausing_with_items_in_flight": bool(sim.h.get("resumed_while_pausing_items")),
                    "with_items_item_went_pending": bool(sim.h.get("item_went_pending")),
                    "rerun_default": ri.get("default"),
                    "rerun_had_failed_terminal_task": ri.get("failed_terminal_task"),
                    "rerun_after_fail_command": ri.get("fail_command_terminal"),
                    "status": status,
                    "after_rerun": bool(sim.h["reruns"]),
                    "after_partial_join_rerun": sim.h["rejoin"],
                    "pause_req": sim.h["pause_req"],
                    "cancel_req": sim.h["cancel_req"],
                    "held": held,
                    "staged": sorted(
                        "%s%s" % (s["id"], "+items" if "items" in s else "")
                        for s in post["state"]["staged"]
                    ),
                },
                "detail": "quiescent (nothing in flight, nothing offered) with status %r" % status,
            }
        ]

    @staticmethod
    def _paused_task(post):
        return any(r.get("status") in (st.PAUSED, st.PENDING) for r in post["state"]["sequence"])


class Purity(Monitor):
    """C19(c): asking twice gives the same answer and leaves the same state."""

    name = "purity"
    prop = "C19"

    def on_step(self, pre, move, sim, res, post, ctx):
        if move[0] == "dispatch" and not res.pure_ok:
            p = res.extra.get("pure", {})
            return [
                {
                    "kind": "query_not_pure",
                    "sig": {"state_equal": p.get("state_equal")},
                    "detail": p,
                }
            ]
        return []


class NoInternalError(Monitor):
    """C15 (soundness half): no exception leaves the API on an accepted definition."""

    name = "noexc"
    prop = "C15"

    def on_step(self, pre, move, sim, res, post, ctx):
        if res.exc is None:
            return []
        if res.exc_type in DOCUMENTED_REJECTIONS.get(move[0], ()):
            return []
        if move[0] == "start" and res.exc_type == "InvalidWorkflowStatusTransition" and post["status"] == st.FAILED:
            # documented rejection: a running request on a workflow that already failed while its
            # input/vars were rendered (the run-time error is recorded; C11 judges that)
            return []
        e = res.extra.get("exc_obj")
        sig = {"op": move[0], "exc_type": res.exc_type, "site": exc_site(e) if e else None}
        a = res.extra.get("action")
        if a:
            sig["reported_task_is_engine_command"] = a[0] in ("fail", "noop", "continue", "retry")
            sig["reported_action_is_item"] = len(a) > 2 and a[2] is not None
        sig["after_rerun"] = bool(sim.h["reruns"])
        return [{"kind": "exception", "sig": sig, "detail": res.exc}]
