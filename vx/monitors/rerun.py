"""C17: rerun re-executes what was asked (plus what follows and what was still due) and converges."""

import json

from vx import refmodel as rm
from vx.explore import Monitor
from vx.monitors.flow import FlowBase
from vx.monitors.persist import first_diff, generic_path
from vx.sim import Sim, st

COMPLETED = set(st.COMPLETED_STATUSES)
TERMINAL = (st.SUCCEEDED, st.FAILED, st.CANCELED)


class RerunConverges(FlowBase):
    name = "c17"
    prop = "C17"
    strict_join = False
    track_ctx = True

    def __init__(self, scn, cfg):
        super(RerunConverges, self).__init__(scn, cfg)
        self._items = set(scn.meta.get("items_tasks", []))
        self.stats.update({"reruns_accepted": 0, "rerun_probes": 0, "post_rerun_quiescent": 0,
                           "twins_compared": 0, "twins_skipped": 0})

    def init_ghost(self, sim):
        g = super(RerunConverges, self).init_ghost(sim)
        g["rr"] = None  # after an accepted rerun: {"requested": [...], "items": bool}
        g["outc"] = {}  # task -> [status, result] of its last completion (for the clean twin)
        g["multi"] = False
        return g

    # reference divergences before any rerun are other properties' business
    def on_ref_violation(self, e, move, sim, res, post):
        g = sim.ghost[self.name]
        if g.get("rr") is None:
            g["off"] = "control-flow divergence before rerun: %s" % e.kind
            return []
        kind = {"unjustified_offer": "rerun_started_unrequested_work",
                "join_redispatched": "rerun_started_unrequested_work",
                "join_barrier_not_met": "rerun_started_unrequested_work"}.get(e.kind, e.kind)
        sig = dict(e.sig)
        sig["default_request"] = not g["rr"]["requested_explicit"]
        # causal feature of F31: one explicit request names a join together with a task upstream of it
        names = g["rr"].get("raw") or []
        sig["request_names_join_and_upstream_task"] = any(
            self.ref.d.is_join(j) and any(u != j and j in self._reach(u) for u in names) for j in names)
        sig["reruns"] = min(sim.h["reruns"], 2)
        return [{"kind": kind, "sig": sig, "detail": e.detail}]

    def check_completion(self, g, info, pre, post, sim, res):
        t = info["task"]
        if t in g["outc"] and g["rr"] is None:
            g["multi"] = True
        if not info.get("retried"):
            g["outc"][t] = [res.extra.get("status", "succeeded"), res.extra.get("result")]
            if info["status"] == "failed" and res.extra.get("action"):
                lin = self.lineage_of(g, pre, res.extra["action"][1])
                g.setdefault("failed_any", [])
                if [t, lin] not in g["failed_any"]:
                    g["failed_any"].append([t, lin])
        return []

    def on_rerun(self, g, pre, move, sim, res, post):
        reqs = move[1]
        if res.exc is not None:
            # the explorer only issues admissible requests (completed workflow, existing executions)
            return [{"kind": "admissible_rerun_rejected", "sig": {"exc_type": res.exc_type,
                     "workflow_status": pre["status"]}, "detail": res.exc}]
        self.stats["reruns_accepted"] += 1
        if post["status"] != st.RESUMING:
            return [{"kind": "rerun_status_not_resuming", "sig": {"status": post["status"]}, "detail": ""}]
        if g["off"]:
            g["rr"] = {"requested": [], "requested_explicit": bool(reqs), "items": True}
            return []
        d = self.ref.d
        requested = []
        if reqs:
            for (t, r, reset) in reqs:
                requested.append([t, self.lineage_of(g, pre, r)])
        else:
            requested = [list(x) for x in g["unhandled"]]
        # collapse requests that are downstream of other requests
        keep = []
        for (t, lin) in requested:
            down = False
            for (t2, lin2) in requested:
                if t2 != t and self._downstream([t, lin], [t2, lin2]):
                    down = True
            if not down and [t, lin] not in keep:
                keep.append([t, lin])
        items = any(t in self._items for t, _ in keep) or bool(self._items)
        sticky = bool(g.get("rr") and g["rr"].get("handled_requested"))
        g["rr"] = {"requested": keep, "requested_explicit": bool(reqs), "items": items, "handled_requested": sticky,
                   "raw": sorted({r[0] for r in reqs})}
        if pre["status"] == st.CANCELED:
            # the quantifier covers failed terminal histories; for a canceled one only stuck-freedom,
            # exceptions and the inadmissible-request probes are judged
            g["off"] = "rerun of a canceled workflow"
            return []
        unhandled_before = [list(x) for x in g["unhandled"]]
        if items:
            g["off"] = "rerun in a definition with with-items tasks (stuck-freedom and exceptions only)"
            return []
        g["tok"] = [x for x in g["tok"] if not (len(x) > 6 and x[6])]  # optional leftovers of an earlier rerun
        optional = []
        if not reqs:
            # by default the failed terminal executions: those nothing handled must be re-executed; those
            # handled only by an engine command (noop/fail) may be (the statement does not say)
            optional = [list(x) for x in g["handled_terminal"] + g.get("failed_any", []) if list(x) not in keep]
            optional = [x for i, x in enumerate(optional) if x not in optional[:i]]
            # an execution downstream of one that is re-executed anyway follows from it
            optional = [x for x in optional if not any(self._downstream(x, k) for k in keep)]
        for (t, lin) in keep + optional:
            last = g["last"].get(rm.lkey(t, lin))
            ctx = last[0] if last else None
            is_opt = [t, lin] in optional
            g["tok"].append([t, lin, ctx, 0, False, None, is_opt])
            if not is_opt:
                self._reset_downstream(g, t, lin)
                if [t, lin] not in unhandled_before:
                    g["rr"]["handled_requested"] = True
        g["unhandled"] = [u for u in g["unhandled"] if u not in keep]
        g["handled_terminal"] = [u for u in g["handled_terminal"] if u not in optional]
        return []

    def _downstream(self, x, k):
        """execution x = [task, lineage] follows from execution k (same branch of the same run)."""
        reach = self._reach(k[0])
        if x[0] not in reach:
            return False
        if x[1][: len(k[1])] != k[1]:
            return False
        for tid in x[1][len(k[1]):]:
            src = tid.rsplit("__t", 1)[0]
            if src != k[0] and src not in reach:
                return False
        return True

    def _reset_downstream(self, g, t, lin):
        # joins downstream (on the same lineage) will be satisfied again by the new executions
        for k, a in g["arr"].items():
            jt = k.split("|", 1)[0]
            jl = json.loads(k.split("|", 1)[1])
            if self._downstream([jt, jl], [t, lin]):  # same branch of the same run (not a sibling route)
                a["fired"] = 0
                a["pending"] = False
                a["from"] = [x for x in a["from"] if x[0] != t and x[0] not in self._reach(t)]
        g["fatal"] = [f for f in g["fatal"] if not f.endswith(" %s" % t)]
        # failures of the previous execution's descendants are superseded by the re-execution
        for name in ("unhandled", "handled_terminal", "failed_any"):
            kept = []
            for u in g.get(name, []):
                if self._downstream(u, [t, lin]):
                    g["fatal"] = [f for f in g["fatal"] if not f.endswith(" %s" % u[0])]
                    continue
                kept.append(u)
            g[name] = kept

    def check_offer(self, g, offer, run, consumed, post):
        if consumed and g.get("rr") is not None and g.get("last_consumed_optional"):
            g["last_consumed_optional"] = False
            self._reset_downstream(g, offer["id"], run[1])
            g["rr"]["handled_requested"] = True
            g["unhandled"] = [u for u in g["unhandled"] if u[0] != offer["id"]]
        return []

    def _reach(self, t):
        d = self.ref.d
        seen, stack = set(), list(d._succ.get(t, []))
        while stack:
            n = stack.pop()
            if n in seen:
                continue
            seen.add(n)
            stack.extend(d._succ.get(n, []))
        return seen

    def on_step(self, pre, move, sim, res, post, ctx):
        g = sim.ghost[self.name]
        out = super(RerunConverges, self).on_step(pre, move, sim, res, post, ctx)
        if out:
            return out
        if g.get("rr") is None:
            return []
        if g["off"] and move[0] == "rerun" and res.exc is None:
            # the reference is off (with-items): still remember what the latest request was
            g["rr"]["requested_explicit"] = bool(move[1])
        # ---- after an accepted rerun
        if res.exc is not None and move[0] != "req":
            act = res.extra.get("action")
            return [{"kind": "exception_after_rerun", "sig": {"op": move[0], "exc_type": res.exc_type,
                                                                "reported_task_is_engine_command": bool(
                                                                    act and act[0] in ("fail", "noop", "continue")),
                                                                "has_items": bool(self._items)},
                     "detail": res.exc}]
        if move[0] == "dispatch" and not res.offers and not sim.h["inflight"] and not sim.h["held"]:
            self.stats["post_rerun_quiescent"] += 1
            status = post["status"]
            if status not in TERMINAL and not (status == st.PAUSED and sim.h["pause_req"]):
                ri = sim.h.get("rerun_info") or {}
                return [{"kind": "stuck_after_rerun",
                         "sig": {"status": status, "default_request": not g["rr"]["requested_explicit"],
                                 "rerun_had_failed_terminal_task": ri.get("failed_terminal_task"),
                                 "rerun_after_fail_command": ri.get("fail_command_terminal"),
                                 "after_partial_join_rerun": sim.h["rejoin"],
                                 "has_items": bool(self._items)},
                         "detail": {"requested": g["rr"]["requested"],
                                    "staged": [s["id"] for s in post["state"]["staged"]]}}]
            if status == st.SUCCEEDED and not g["off"]:
                pend = self.ref.pending_unconsumed(g)
                if pend:
                    return [{"kind": "rerun_lost_work",
                             "sig": {"fail_command_ran": any(f.startswith("fail command") for f in g["fatal"]) or
                                     bool((sim.h.get("rerun_info") or {}).get("fail_command_terminal")),
                                     "reruns": min(sim.h["reruns"], 2)},
                             "detail": pend}]
            if status in (st.SUCCEEDED, st.FAILED) and not g["off"]:
                return self._twin(g, sim, post)
        return []

    # ---- clean twin: the same definition with the recorded outcomes (rerun tasks succeeded)
    def _twin(self, g, sim, post):
        if g["multi"] or self.ref.d.has_cycle() or g["rr"].get("handled_requested"):
            # the clean-run relation is only defined when the re-executed failures had not been handled
            # (a handler that already ran cannot be undone by the rerun)
            self.stats["twins_skipped"] += 1
            return []
        outc = g["outc"]
        tw = Sim(self.scn)
        tw.apply(["start"], check_pure=False)
        for _ in range(200):
            r = tw.apply(["dispatch"], check_pure=False)
            if r.exc is not None:
                self.stats["twins_skipped"] += 1
                return []
            if not tw.h["inflight"]:
                break
            a = tw.h["inflight"][0]
            if a[0] not in outc:
                self.stats["twins_skipped"] += 1
                return []
            stt, rs = outc[a[0]]
            tw.apply(["complete", 0, stt, rs, list(a)], check_pure=False)
        else:
            self.stats["twins_skipped"] += 1
            return []
        self.stats["twins_compared"] += 1
        m = Sim.restore(self.scn, sim.snapshot())
        m.apply(["render"], check_pure=False)
        tw.apply(["render"], check_pure=False)
        a = {"status": m.status, "output": m.c.get_workflow_output()}
        b = {"status": tw.status, "output": tw.c.get_workflow_output()}
        if a != b:
            return [{"kind": "rerun_outcome_differs_from_clean_run",
                     "sig": {"aspect": "status" if a["status"] != b["status"] else "output",
                             "rerun": a["status"], "clean": b["status"],
                             "other_unhandled_failure_remains": bool(g["unhandled"]),
                             "fail_command_ran": any(f.startswith("fail command") for f in g["fatal"]),
                             "default_request": not g["rr"]["requested_explicit"]},
                     "detail": {"after_rerun": a, "clean_run": b, "outcomes": outc}}]
        return []

    def on_state(self, sim, post, ctx):
        """Inadmissible requests: rejected with an error and without effect."""
        if post["state"] is None:
            return []
        status = post["status"]
        probes = []
        if status not in COMPLETED:
            probes.append(([], "WorkflowIsActiveAndNotRerunableError"))
        else:
            probes.append(([["no_such_task", 0, False]], "InvalidTaskRerunRequest"))
            if post["state"]["sequence"]:
                t = post["state"]["sequence"][0]["id"]
                probes.append(([[t, 7, False]], "InvalidTaskRerunRequest"))
        for reqs, want in probes:
            tw = ctx.fresh_pre()
            before = tw.c.serialize()
            r = tw.apply(["rerun", reqs], check_pure=False)
            self.stats["rerun_probes"] += 1
            if r.exc is None:
                return [{"kind": "inadmissible_rerun_accepted",
                         "sig": {"workflow_status": status, "request": "default" if not reqs else "unknown"},
                         "detail": ""}]
            after = tw.c.serialize()
            if after != before:
                dd = first_diff(before, after)
                return [{"kind": "rejected_rerun_changed_state", "sig": {"where": generic_path(dd)},
                         "detail": dd}]
        return []
