"""C08: the outcome does not depend on the order completions are reported."""

import json

from vx import refdef as rd
from vx.explore import Monitor
from vx.sim import st, ENGINE_COMMANDS


def concurrent_writers(wf):
    """Variables published by two tasks neither of which is an ancestor of the other
    (or twice by one task): arrival order may legitimately decide their final value."""
    d = rd.RefDef(wf)
    pubs = {}
    for t in d.order:
        for tr in d.tasks[t]["next"]:
            for var, _ in tr["publish"]:
                pubs.setdefault(var, []).append(t)
    reach = {}

    def reachable(a):
        if a not in reach:
            seen, stack = set(), list(d._succ.get(a, []))
            while stack:
                n = stack.pop()
                if n in seen:
                    continue
                seen.add(n)
                stack.extend(d._succ.get(n, []))
            reach[a] = seen
        return reach[a]

    conc = set()
    for var, ts in pubs.items():
        if len(ts) != len(set(ts)):
            conc.add(var)
            continue
        for i in range(len(ts)):
            for j in range(i + 1, len(ts)):
                a, b = ts[i], ts[j]
                if b not in reachable(a) and a not in reachable(b):
                    conc.add(var)
    return conc, set(pubs)


class OrderIndependent(Monitor):
    name = "c08"
    prop = "C08"

    def __init__(self, scn, cfg):
        super(OrderIndependent, self).__init__(scn, cfg)
        self.obs = {}  # observation json -> witness history
        self.conc, self.pubvars = concurrent_writers(scn.wf)
        self.outdeps = self._output_deps(scn.wf)
        self.stats = {"complete_histories_observed": 0, "distinct_observations": 0}

    def _output_deps(self, wf):
        """output name -> set of context variables it reads (None if not interpretable)."""
        deps = {}
        for item in wf.get("output") or []:
            (k, v), = item.items()
            ast = rd.parse_expr(v)
            if ast[0] == "lit":
                deps[k] = set()
            elif ast[0] in ("ctx", "inc"):
                deps[k] = {ast[1]}
            else:
                deps[k] = None
        return deps

    def observe(self, sim):
        c = sim.c
        ws = c.workflow_state
        status = ws.status
        o = {"status": status}
        if status == st.SUCCEEDED:
            o["executed"] = sorted(r["id"] for r in ws.sequence if r["id"] not in ENGINE_COMMANDS)
            deltas = []
            for r in ws.sequence:
                for tid, idx in ((r.get("ctxs") or {}).get("out") or {}).items():
                    deltas.append([r["id"], tid, ws.contexts[idx]])
            o["published"] = sorted(json.dumps(x, sort_keys=True) for x in deltas)
            tw = Sim_render(sim)
            outv = {}
            for k, v in (tw or {}).items():
                dep = self.outdeps.get(k)
                if dep is None or dep & self.conc:
                    continue
                outv[k] = v
            o["output_single_writer"] = outv
        return o

    def on_leaf(self, sim, post, ctx):
        if sim.h["inflight"] or sim.h["held"] or sim.h["broken"] or sim.c._workflow_state is None:
            return []
        self.stats["complete_histories_observed"] += 1
        o = self.observe(sim)
        k = json.dumps(o, sort_keys=True, default=repr)
        if k not in self.obs:
            self.obs[k] = ctx.history()
            self.stats["distinct_observations"] = len(self.obs)
            if len(self.obs) == 2:
                (k1, h1), (k2, h2) = list(self.obs.items())
                o1, o2 = json.loads(k1), json.loads(k2)
                aspect = [a for a in ("status", "executed", "published", "output_single_writer")
                          if o1.get(a) != o2.get(a)][0]
                sig = {"aspect": aspect}
                if aspect == "status":
                    sig["statuses"] = sorted([o1["status"], o2["status"]])
                sig["has_partial_join"] = self._partial_join()
                return [{
                    "kind": "order_dependent_outcome",
                    "sig": sig,
                    "detail": {"observation_a": o1, "observation_b": o2, "history_a": h1},
                    "pair": h1,
                }]
        return []

    def _partial_join(self):
        d = rd.RefDef(self.scn.wf)
        for t in d.order:
            if d.is_join(t) and d.tasks[t]["join"] != "all" and d.join_requirement(t) < len(d.inbound_tasks(t)):
                return True
        return False


def Sim_render(sim):
    """Output as the provider would obtain it at the end (on a copy; the explored state is untouched)."""
    from vx.sim import Sim

    tw = Sim.restore(sim.scn, sim.snapshot())
    if tw.status not in st.COMPLETED_STATUSES:
        return None
    tw.apply(["render"], check_pure=False)
    if tw.status != sim.status:
        return {"$status_after_render": tw.status}
    return tw.c.get_workflow_output()
