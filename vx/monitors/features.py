"""C12 (with-items), C13 (retry), C11 (run-time expression errors)."""

import json

from vx import refdef as rd
from vx.explore import Monitor
from vx.monitors.basic import DOCUMENTED_REJECTIONS, exc_site
from vx.monitors.flow import FlowBase, latest_record
from vx.monitors.status import non_failure_errors
from vx.sim import st

COMPLETED = set(st.COMPLETED_STATUSES)
ABENDED = ("failed", "timeout", "abandoned")


def _ctx_value(scn, expr):
    """Evaluate a literal or <% ctx(x) %> against the scenario inputs / literal vars."""
    if not isinstance(expr, str):
        return expr
    ast = rd.parse_expr(expr)
    if ast[0] == "lit":
        return ast[1]
    if ast[0] == "ctx":
        vals = {}
        for item in scn.wf.get("input") or []:
            if isinstance(item, dict):
                vals.update(item)
        for item in scn.wf.get("vars") or []:
            vals.update(item)
        vals.update(scn.inputs or {})
        return vals.get(ast[1], rd.UNKNOWN)
    return rd.UNKNOWN


class ItemsWindow(Monitor):
    name = "c12"
    prop = "C12"

    def __init__(self, scn, cfg):
        super(ItemsWindow, self).__init__(scn, cfg)
        self.d = rd.RefDef(scn.wf)
        self.stats = {"item_offers": 0, "item_completions": 0, "tasks_drained": 0, "result_lists_checked": 0}

    def init_ghost(self, sim):
        return {}

    def k_eff(self, task, n):
        w = self.d.tasks[task]["with"] or {}
        k = w.get("concurrency")
        if k is None:
            return max(n, 1)
        k = _ctx_value(self.scn, k)
        if k == rd.UNKNOWN or not isinstance(k, int):
            return None
        return 1 if k <= 0 else k

    def on_step(self, pre, move, sim, res, post, ctx):
        g = sim.ghost[self.name]
        op = move[0]
        if res.exc is not None or post["state"] is None:
            return []

        def v(kind, **sig):
            d = sig.pop("_detail", None)
            return [{"kind": kind, "sig": sig, "detail": d}]

        if op == "dispatch":
            for o in res.offers or []:
                if "items_count" not in o:
                    # result list seen by a successor (scenario publishes r=<% result() %>)
                    exp = sim.h.get("expect_r")
                    continue
                key = "%s__r%s" % (o["id"], o["route"])
                n = o["items_count"]
                rec = latest_record(post, o["id"], o["route"])
                e = g.get(key)
                if e is not None and e.get("completed") and e.pop("maybe_rerun", False):
                    ok = {k: x for k, x in e["done"].items() if x == st.SUCCEEDED}
                    e.update({"done": ok, "offered": sorted(int(k) for k in ok), "completed": False, "reset": True})
                if e is None or e.get("completed"):
                    e = {"n": n, "offered": [], "done": {}, "completed": False,
                         "rec": post["state"]["tasks"].get(key)}
                    g[key] = e
                idxs = [a["item_id"] for a in o["actions"]]
                self.stats["item_offers"] += len(idxs)
                if pre["h"]["pause_req"] or pre["h"]["cancel_req"]:
                    return v("item_offered_after_pause_or_cancel", pause=pre["h"]["pause_req"],
                             cancel=pre["h"]["cancel_req"])
                for i in idxs:
                    if e["done"].get(str(i)) == st.SUCCEEDED:
                        return v("succeeded_item_offered_again", _detail={"task": o["id"], "item": i})
                    if i in e["offered"] and not e.get("reset"):
                        return v("item_offered_twice", _detail={"task": o["id"], "item": i, "offered": e["offered"]})
                    if e["offered"] and i < max(e["offered"]) and not e.get("reset"):
                        return v("item_out_of_order", _detail={"task": o["id"], "item": i, "offered": e["offered"]})
                    e["offered"].append(i)
                if idxs != sorted(idxs):
                    return v("item_out_of_order", _detail={"task": o["id"], "offer": idxs})
                k = self.k_eff(o["id"], n)
                infl = [a for a in sim.h["inflight"] if a[0] == o["id"] and a[1] == o["route"]]
                if k is not None and len(infl) > k:
                    return v("concurrency_exceeded", _detail={"task": o["id"], "in_flight": len(infl), "k": k})
                if n == 0:
                    if not rec or rec.get("status") != st.SUCCEEDED:
                        return v("empty_items_not_completed_at_once",
                                 _detail={"record": rec and rec.get("status")})
                    e["completed"] = True
            # quiescence: everything must have been offered when nothing failed / intervened
            if not res.offers and not sim.h["inflight"] and not sim.h["held"]:
                for key, e in g.items():
                    if not isinstance(e, dict) or e.get("completed"):
                        continue
                    failed_item = any(s in ABENDED or s == "canceled" for s in e["done"].values())
                    if failed_item or sim.h["pause_req"] or sim.h["cancel_req"]:
                        continue
                    if post["status"] in (st.FAILED, st.CANCELED):
                        continue  # a sibling failed the workflow
                    if len(set(e["offered"])) < e["n"]:
                        return v("items_not_all_offered", status=post["status"],
                                 _detail={"task": key, "offered": e["offered"], "n": e["n"]})
            return []
        if op in ("complete", "release"):
            task, route, item = res.extra["action"]
            if item is None:
                return []
            key = "%s__r%s" % (task, route)
            e = g.get(key)
            if e is None:
                return []
            self.stats["item_completions"] += 1
            e["done"][str(item)] = res.extra["status"]
            rec = latest_record(post, task, route)
            rstat = rec.get("status") if rec else None
            others = [a for a in sim.h["inflight"] if a[0] == task and a[1] == route]
            if rstat in COMPLETED and others:
                return v("task_completed_with_item_in_flight", task_status=rstat,
                         _detail={"task": task, "in_flight": others})
            if rstat in COMPLETED:
                e["completed"] = True
                self.stats["tasks_drained"] += 1
                all_reported = len(e["done"]) == e["n"]
                all_ok = all_reported and all(s == st.SUCCEEDED for s in e["done"].values())
                if rstat == st.SUCCEEDED and not all_ok:
                    return v("task_succeeded_without_all_items_succeeding",
                             _detail={"done": e["done"], "n": e["n"]})
                if all_ok and rstat != st.SUCCEEDED and not (pre["h"]["cancel_req"]):
                    return v("all_items_succeeded_but_task_not_succeeded", task_status=rstat)
            elif rstat == "retrying":
                e["completed"] = True
            else:
                # not completed: if nothing of it is in flight, and nothing will be offered, C03 judges
                if len(e["done"]) == e["n"] and not others and rstat in (st.RUNNING,):
                    return v("all_items_reported_but_task_still_running")
            return []
        if op == "rerun" and res.exc is None:
            reqs = move[1]
            for key, e in g.items():
                if not isinstance(e, dict):
                    continue
                failed_before = any(x in ABENDED or x == "canceled" for x in e["done"].values())
                req = [r for r in reqs if "%s__r%s" % (r[0], r[1]) == key]
                if reqs and not req:
                    continue  # this execution is not re-executed
                if not reqs:
                    # default request: whether this execution is re-executed is the engine's choice of the
                    # failed terminal tasks; decided when (and if) its items are offered again
                    if failed_before:
                        e["maybe_rerun"] = True
                    continue
                if req and req[0][2]:
                    # reset_items: every item starts over
                    e.update({"offered": [], "done": {}, "completed": False, "reset": False})
                else:
                    ok = {k: x for k, x in e["done"].items() if x == st.SUCCEEDED}
                    e["done"] = ok
                    e["offered"] = sorted(int(k) for k in ok)
                    e["completed"] = False
                    e["reset"] = True
        return []


class ItemsResult(FlowBase):
    """C12 (result order): the list seen by the task's transitions is the item-ordered list."""

    name = "c12r"
    prop = "C12"
    strict_join = False
    track_ctx = True

    def on_ref_violation(self, e, move, sim, res, post):
        sim.ghost[self.name]["off"] = "control-flow divergence: %s" % e.kind
        return []

    def check_offer(self, g, offer, run, consumed, post):
        exp = self.ref.plain(run[2])
        if exp is None or "r" not in exp or exp["r"] == rd.UNKNOWN:
            return []
        self.stats["ctx_compared"] += 1
        if offer["ctx"].get("r", "$absent") != exp["r"]:
            return [{"kind": "item_results_not_in_item_order", "sig": {},
                     "detail": {"expected": exp["r"], "seen": offer["ctx"].get("r", "$absent")}}]
        return []


class RetryBounded(FlowBase):
    name = "c13"
    prop = "C13"
    strict_join = False
    track_ctx = True

    def __init__(self, scn, cfg):
        super(RetryBounded, self).__init__(scn, cfg)
        self.stats.update({"attempt_offers": 0, "retry_decisions_compared": 0, "retried_attempts_checked": 0})

    def init_ghost(self, sim):
        g = super(RetryBounded, self).init_ghost(sim)
        g["att"] = {}
        return g

    def on_ref_violation(self, e, move, sim, res, post):
        sim.ghost[self.name]["off"] = "control-flow divergence: %s" % e.kind
        return []

    def _policy(self, task, ctxplain):
        pol = self.ref.d.retry_policy(task)
        if pol is None:
            return None
        out = dict(pol)
        for k in ("count", "delay"):
            val = out.get(k)
            if isinstance(val, str):
                ast = rd.parse_expr(val)
                out[k] = rd.eval_expr(ast, None, ctxplain or {})
        return out

    def check_offer(self, g, offer, run, consumed, post):
        task = offer["id"]
        pol = self._policy(task, self.ref.plain(run[2]))
        if pol is None:
            return []
        key = "%s__r%s" % (task, offer["route"])
        idx = post["state"]["tasks"].get(key)
        if "items_count" in offer and not consumed:
            return []
        self.stats["attempt_offers"] += 1
        a = g["att"].get(key)
        if a is None or a["rec"] != idx:
            a = {"rec": idx, "n": 0}
            g["att"][key] = a
        a["n"] += 1
        count = pol["count"]
        if isinstance(count, int) and not isinstance(count, bool) and a["n"] > count + 1:
            return [{"kind": "retry_bound_exceeded", "sig": {"has_items": "items_count" in offer},
                     "detail": {"task": task, "offers": a["n"], "count": count}}]
        if a["n"] > 1:
            want = pol.get("delay")
            if want == rd.UNKNOWN:
                return []
            got = offer.get("delay")
            if (want or 0) != (got or 0):
                return [{"kind": "retry_delay_wrong", "sig": {}, "detail": {"task": task, "expected": want, "offered": got}}]
        return []

    def check_completion(self, g, info, pre, post, sim, res):
        task = info["task"]
        if self.ref.d.retry_policy(task) is None:
            return []
        a = res.extra.get("action") or [task, 0, None]
        rec = latest_record(post, a[0], a[1])
        engine_retried = bool(rec and rec.get("status") == "retrying")
        out = []
        if "retry_expected" in info:
            self.stats["retry_decisions_compared"] += 1
            if info["retry_expected"] != engine_retried:
                return [{"kind": "retry_decision_mismatch",
                         "sig": {"expected": info["retry_expected"], "engine": engine_retried,
                                 "workflow_status": pre["status"], "task_status": info["status"]},
                         "detail": {"task": task, "record": rec}}]
        if engine_retried:
            self.stats["retried_attempts_checked"] += 1
            if post["state"]["contexts"] != pre["state"]["contexts"]:
                out.append({"kind": "retried_attempt_published", "sig": {}, "detail": ""})
            elif len(post["state"]["sequence"]) != len(pre["state"]["sequence"]):
                out.append({"kind": "retried_attempt_ran_transition", "sig": {}, "detail": ""})
            elif [s["id"] for s in post["state"]["staged"] if s["id"] != task] != \
                    [s["id"] for s in pre["state"]["staged"] if s["id"] != task]:
                out.append({"kind": "retried_attempt_staged_successor", "sig": {}, "detail": ""})
            elif post["status"] == st.FAILED and pre["status"] != st.FAILED:
                out.append({"kind": "retried_attempt_failed_workflow", "sig": {}, "detail": ""})
            elif rec.get("next"):
                out.append({"kind": "retried_attempt_decided_transitions", "sig": {}, "detail": rec.get("next")})
        return out


class ErrorsContained(Monitor):
    """C11. scn.meta['trigger'] = {"kind": "start"|"dispatch"|"complete"|"render", "task": X,
    "transition": bool}: the step at which the failing expression is evaluated."""

    name = "c11"
    prop = "C11"

    def __init__(self, scn, cfg):
        super(ErrorsContained, self).__init__(scn, cfg)
        self.trig = scn.meta.get("trigger") or {}
        self.stats = {"triggers_reached": 0, "post_trigger_steps": 0}

    def init_ghost(self, sim):
        return {"fired": False}

    def _triggered(self, pre, move, sim, res):
        t = self.trig
        k = t.get("kind")
        op = move[0]
        if k == "start":
            return op == "start"
        if k == "render":
            return op == "render"
        if k == "dispatch" and op == "dispatch" and pre["state"] is not None:
            if pre["status"] not in st.RUNNING_STATUSES:
                return False
            if t.get("needs_failed") and not any(
                    r["id"] == t["needs_failed"] and r.get("status") == st.FAILED
                    for r in pre["state"]["sequence"]):
                return False
            for s in pre["state"]["staged"]:
                if s["id"] == t["task"] and s["ready"] and not s.get("completed"):
                    if t.get("when_ctx"):
                        merged = {}
                        for i in s["ctxs"]["in"]:
                            merged.update(pre["state"]["contexts"][i])
                        if any(merged.get(kk) != vv for kk, vv in t["when_ctx"].items()):
                            continue
                    return True
            return False
        if k == "dispatch_failed_wf" and op == "dispatch" and pre["state"] is not None:
            # a clean-up task (run on fail) is rendered although the workflow already failed
            if pre["status"] != st.FAILED:
                return False
            return any(s["id"] == t["task"] and s["ready"] and s.get("run_on_fail") for s in pre["state"]["staged"])
        if k == "complete" and op in ("complete", "release"):
            a = res.extra.get("action") or move[4]
            if a[0] != t["task"]:
                return False
            if t.get("status") and res.extra.get("status") != t["status"]:
                return False
            if t.get("statuses") and res.extra.get("status") not in t["statuses"]:
                return False
            return True
        return False

    def on_step(self, pre, move, sim, res, post, ctx):
        g = sim.ghost[self.name]
        op = move[0]
        pos = self.scn.meta.get("position")

        def v(kind, **sig):
            d = sig.pop("_detail", None)
            sig.setdefault("position", pos)
            return [{"kind": kind, "sig": sig, "detail": d}]

        if op == "start" and res.exc_type == "InvalidWorkflowStatusTransition" and post["status"] == st.FAILED:
            pass  # documented: a running request on a workflow that failed while rendering input/vars
        elif res.exc is not None and res.exc_type not in DOCUMENTED_REJECTIONS.get(op, ()):
            e = res.extra.get("exc_obj")
            return v("exception_escaped", op=op, exc_type=res.exc_type, site=exc_site(e) if e else None,
                     _detail=res.exc)
        if post["state"] is None:
            return []
        if g["fired"] and op == "rerun" and res.exc is None:
            # an accepted rerun request starts over: the failing expression may be evaluated again
            g["fired"] = False
            return []
        if g["fired"]:
            self.stats["post_trigger_steps"] += 1
            if op == "dispatch" and res.offers:
                return v("offer_after_runtime_error", _detail=[o["id"] for o in res.offers])
            if post["status"] not in (st.FAILED, st.CANCELED, st.CANCELING) and op != "rerun":
                return v("status_left_failed_after_runtime_error", status=post["status"])
            return []
        if not self._triggered(pre, move, sim, res):
            return []
        if self.trig.get("only_if_status") and pre["status"] not in self.trig["only_if_status"]:
            return []
        g["fired"] = True
        self.stats["triggers_reached"] += 1
        errs = non_failure_errors(post["errors"])
        task = self.trig.get("task")
        named = [e for e in errs if task is None or e.get("task_id") == task]
        if self.trig.get("transition"):
            named = [e for e in named if e.get("task_transition_id")]
        if not named:
            return v("runtime_error_not_recorded", _detail={"errors": post["errors"], "status": post["status"]})
        ok_status = post["status"] == st.FAILED or (
            sim.h["cancel_req"] and post["status"] in (st.CANCELED, st.CANCELING))
        if not ok_status:
            return v("runtime_error_did_not_fail_workflow", status=post["status"])
        if op == "dispatch" and res.offers and not self.trig.get("at_ack"):
            return v("offer_after_runtime_error", _detail=[o["id"] for o in res.offers])
        return []
