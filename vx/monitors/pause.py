"""C09: pause/resume is transparent (twin run without the pause) and holds work back."""

import hashlib
import json

from vx import refdef as rd
from vx.explore import Monitor
from vx.sim import Sim, st, ENGINE_COMMANDS

PAUSE_REQ = (st.PAUSING, st.PAUSED)
RESUME_REQ = (st.RUNNING, st.RESUMING)


def outcome(sim, skip_outputs=()):
    if sim.status in (st.SUCCEEDED, st.FAILED, st.CANCELED):
        # compare what the provider obtains at the end: render on a copy (the explored state is untouched)
        cp = Sim.restore(sim.scn, sim.snapshot())
        cp.apply(["render"], check_pure=False)
        sim = cp
    ws = sim.c.workflow_state
    execd = sorted("%s:%s" % (r["id"], r.get("status")) for r in ws.sequence if r["id"] not in ENGINE_COMMANDS)
    errs = sorted(json.dumps({k: e.get(k) for k in ("message", "task_id", "task_transition_id")}, sort_keys=True)
                  for e in sim.c.errors)
    out = sim.c.get_workflow_output()
    if isinstance(out, dict) and skip_outputs:
        out = {k: v for k, v in out.items() if k not in skip_outputs}
    return {"status": ws.status, "executed": execd, "errors": errs, "output": out}


class PauseTransparent(Monitor):
    name = "c09"
    prop = "C09"

    def __init__(self, scn, cfg):
        super(PauseTransparent, self).__init__(scn, cfg)
        self.stats = {"paused_steps": 0, "twin_steps": 0, "twin_endings_compared": 0, "resume_offers_compared": 0}
        # output variables fed by concurrent writers may legitimately depend on launch order (as in C08)
        from vx import refdef as rd
        from vx.monitors.order import concurrent_writers

        conc, _ = concurrent_writers(scn.wf)
        self.skip_outputs = set()
        for item in scn.wf.get("output") or []:
            (k, v), = item.items()
            ast = rd.parse_expr(v)
            if ast[0] not in ("lit",) and not (ast[0] in ("ctx", "inc") and ast[1] not in conc):
                self.skip_outputs.add(k)

    def init_ghost(self, sim):
        # phase: 0 = never paused, 1 = pause outstanding, 2 = resumed
        return {"phase": 0, "twin_key": None, "_twin": None, "first_dispatch_after_resume": False}

    def _store(self, g, twin):
        g["_twin"] = twin.snapshot()
        g["twin_key"] = hashlib.blake2b(twin.key(with_budget=False).encode(), digest_size=12).hexdigest()

    def on_step(self, pre, move, sim, res, post, ctx):
        g = sim.ghost[self.name]
        op = move[0]
        status = post["status"]

        def v(kind, **sig):
            d = sig.pop("_detail", None)
            sig.setdefault("after_partial_join_rerun", sim.h["rejoin"])
            return [{"kind": kind, "sig": sig, "detail": d}]

        if op == "req" and move[1] in PAUSE_REQ and res.exc is None and g["phase"] == 2:
            # a second pause after a resume: the twin simply carries on
            g["phase"] = 1
            g["first_dispatch_after_resume"] = False
            return self._pause_invariants(g, sim, post, res, move)
        if op == "req" and move[1] in PAUSE_REQ and res.exc is None and g["phase"] == 0:
            twin = ctx.fresh_pre()
            twin.ghost = {}
            twin.budget = {}
            g["phase"] = 1
            self._store(g, twin)
            g["paused_with_inflight"] = bool(sim.h["inflight"])
            return self._pause_invariants(g, sim, post, res, move)
        if g["phase"] == 0:
            return []
        if op == "req" and move[1] in RESUME_REQ and g["phase"] == 1:
            if res.exc is not None:
                return v("resume_rejected", exc_type=res.exc_type)
            g["phase"] = 2
            g["first_dispatch_after_resume"] = True
            return []
        if op == "req":
            # a cancel (or anything else) ends the comparison for this history
            g["phase"] = 3
            g["_twin"] = None
            g["twin_key"] = None
            return []
        if g["phase"] == 3:
            return []
        twin = Sim.restore(self.scn, g["_twin"])
        out = []
        if op == "dispatch":
            if g["phase"] == 1:
                self.stats["paused_steps"] += 1
                if res.offers and pre["status"] in (st.PAUSING, st.PAUSED):
                    return v("offer_while_pausing_or_paused", status=pre["status"],
                             has_items=any("items_count" in o for o in res.offers))
                # the twin is free to launch (that is the work being held back)
                twin.apply(["dispatch"], check_pure=False)
            else:
                if g["first_dispatch_after_resume"]:
                    g["first_dispatch_after_resume"] = False
                    self.stats["resume_offers_compared"] += 1
                    twin.apply(["dispatch"], check_pure=False)
                    launched_by_twin = [a for a in twin.h["inflight"] if a not in pre["h"]["inflight"]]
                    offered = [a for a in sim.h["inflight"] if a not in pre["h"]["inflight"]]
                    # (iii) the resumed run launches only work the unpaused run launched as well, and all
                    # plain (non-item) work that was held back, unless it is no longer running
                    extra = [a for a in offered if a not in launched_by_twin]
                    missing = [a for a in launched_by_twin if a not in offered and a[2] is None]
                    # an item the unpaused run launched before a sibling item failed keeps its task open
                    # there; the two runs are then not comparable step by step
                    twin_ahead = any(a[2] is not None and a not in sim.h["inflight"] for a in twin.h["inflight"])
                    if twin_ahead:
                        extra, missing = [], []
                    if extra or (missing and post["status"] in st.RUNNING_STATUSES):
                        return v("resume_did_not_release_held_work",
                                 after_partial_join_rerun=sim.h["rejoin"] or twin.h["rejoin"],
                                 _detail={"launched_by_unpaused_run": launched_by_twin, "offered_on_resume": offered})
                else:
                    twin.apply(["dispatch"], check_pure=False)
        elif op in ("complete", "release"):
            a = res.extra["action"]
            try:
                idx = twin.h["inflight"].index(a)
            except ValueError:
                if any(x[2] is not None and x not in sim.h["inflight"] for x in twin.h["inflight"]):
                    # the unpaused run launched an item before a sibling item failed and still waits
                    # for it: the two runs are no longer comparable (not a violation)
                    g["phase"] = 3
                    g["_twin"] = None
                    g["twin_key"] = None
                    return []
                return v("paused_run_completed_action_unknown_to_twin", _detail={"action": a},
                         after_partial_join_rerun=sim.h["rejoin"] or twin.h["rejoin"])
            tm = list(move)
            tm[1] = idx
            tm[4] = list(a)
            tres = twin.apply(tm, check_pure=False)
            self.stats["twin_steps"] += 1
            if (tres.exc_type or None) != (res.exc_type or None):
                return v("exception_differs_from_twin", main=res.exc_type, twin=tres.exc_type)
        elif op == "render":
            twin.apply(["render"], check_pure=False)
        self._store(g, twin)
        if g["phase"] == 1:
            out.extend(self._pause_invariants(g, sim, post, res, move))
        return out

    def _pause_invariants(self, g, sim, post, res, move):
        status = post["status"]
        infl = sim.h["inflight"]
        if status in (st.FAILED, st.CANCELED, st.SUCCEEDED):
            return []
        if status == st.PAUSED and infl:
            return [{"kind": "paused_with_action_in_flight",
                     "sig": {"after_partial_join_rerun": sim.h["rejoin"]}, "detail": list(infl)}]
        if status == st.PAUSING and not infl and not sim.h["held"]:
            return [{"kind": "pausing_with_nothing_in_flight",
                     "sig": {"retrying": any(r.get("status") == "retrying" for r in post["state"]["sequence"])},
                     "detail": ""}]
        if status not in (st.PAUSING, st.PAUSED):
            return [{"kind": "left_pause_statuses_without_resume", "sig": {"status": status}, "detail": ""}]
        return []

    def on_leaf(self, sim, post, ctx):
        g = sim.ghost.get(self.name)
        if not g or sim.h["inflight"] or sim.h["held"] or sim.h["broken"] or g["_twin"] is None:
            return []
        if not (g["phase"] == 2 or (g["phase"] == 1 and sim.status in (st.FAILED, st.SUCCEEDED, st.CANCELED))):
            return []
        twin = Sim.restore(self.scn, g["_twin"])
        # let the twin launch anything it has not launched yet
        twin.apply(["dispatch"], check_pure=False)
        main_status = sim.status
        if main_status in (st.FAILED, st.CANCELED):
            # fail-fast may leave work unlaunched in one run only; the status must agree
            if twin.h["inflight"]:
                return []  # the unpaused run still waits for actions this history never reports
            self.stats["twin_endings_compared"] += 1
            if twin.status != main_status:
                return [{"kind": "outcome_differs_from_unpaused_run",
                         "sig": {"aspect": "status", "paused_run": main_status, "unpaused_run": twin.status,
                                 "after_partial_join_rerun": sim.h["rejoin"] or twin.h["rejoin"]},
                         "detail": {"twin_in_flight": twin.h["inflight"]}}]
            return []
        if main_status != st.SUCCEEDED:
            if twin.status in (st.SUCCEEDED, st.FAILED, st.CANCELED) and not twin.h["inflight"] \
                    and not sim.h["need_dispatch"] and g["phase"] == 2:
                return [{"kind": "outcome_differs_from_unpaused_run",
                         "sig": {"aspect": "status", "paused_run": main_status, "unpaused_run": twin.status,
                                 "after_partial_join_rerun": sim.h["rejoin"] or twin.h["rejoin"]},
                         "detail": {"note": "the resumed run is at rest in a non-terminal status"}}]
            return []
        if twin.h["inflight"]:
            return [{"kind": "outcome_differs_from_unpaused_run",
                     "sig": {"aspect": "work_left_in_twin",
                             "after_partial_join_rerun": sim.h["rejoin"] or twin.h["rejoin"]},
                     "detail": {"twin_in_flight": twin.h["inflight"], "main_status": sim.status}}]
        self.stats["twin_endings_compared"] += 1
        a, b = outcome(sim, self.skip_outputs), outcome(twin, self.skip_outputs)
        if a != b:
            aspect = [k for k in ("status", "executed", "errors", "output") if a[k] != b[k]][0]
            sig = {"aspect": aspect, "after_partial_join_rerun": sim.h["rejoin"] or twin.h["rejoin"]}
            if aspect == "status":
                sig["paused_run"] = a["status"]
                sig["unpaused_run"] = b["status"]
                sig["fail_command_in_definition"] = any(
                    "fail" in rd.norm_do(tr.get("do")) for t in (self.scn.wf.get("tasks") or {}).values()
                    for tr in ((t or {}).get("next") or []))
            return [{"kind": "outcome_differs_from_unpaused_run", "sig": sig,
                     "detail": {"paused_run": a, "unpaused_run": b}}]
        return []
