"""C09: pause/resume is transparent (twin run without the pause) and holds work back."""

import hashlib
import json

from vx.explore import Monitor
from vx.sim import Sim, st, ENGINE_COMMANDS

PAUSE_REQ = (st.PAUSING, st.PAUSED)
RESUME_REQ = (st.RUNNING, st.RESUMING)


def outcome(sim):
    ws = sim.c.workflow_state
    execd = sorted("%s:%s" % (r["id"], r.get("status")) for r in ws.sequence if r["id"] not in ENGINE_COMMANDS)
    errs = sorted(json.dumps({k: e.get(k) for k in ("message", "task_id", "task_transition_id")}, sort_keys=True)
                  for e in sim.c.errors)
    return {"status": ws.status, "executed": execd, "errors": errs, "output": sim.c.get_workflow_output()}


class PauseTransparent(Monitor):
    name = "c09"
    prop = "C09"

    def __init__(self, scn, cfg):
        super(PauseTransparent, self).__init__(scn, cfg)
        self.stats = {"paused_steps": 0, "twin_steps": 0, "twin_endings_compared": 0, "resume_offers_compared": 0}

    def init_ghost(self, sim):
        # phase: 0 = never paused, 1 = pause outstanding, 2 = resumed
        return {"phase": 0, "twin_key": None, "_twin": None, "first_dispatch_after_resume": False}

    def _store(self, g, twin):
        g["_twin"] = twin.snapshot()
        g["twin_key"] = hashlib.blake2b(twin.key(with_budget=False).encode(), digest_size=12).hexdigest()

    def on_step(self, pre, move, sim, res, post, ctx):
        g = sim.ghost[self.name]
        op = move[0]
        status = post["status"]

        def v(kind, **sig):
            return [{"kind": kind, "sig": sig, "detail": sig.pop("_detail", None)}]

        if op == "req" and move[1] in PAUSE_REQ and res.exc is None and g["phase"] == 0:
            twin = ctx.fresh_pre()
            twin.ghost = {}
            twin.budget = {}
            g["phase"] = 1
            self._store(g, twin)
            g["paused_with_inflight"] = bool(sim.h["inflight"])
            return self._pause_invariants(g, sim, post, res, move)
        if g["phase"] == 0:
            return []
        if op == "req" and move[1] in RESUME_REQ and g["phase"] == 1:
            if res.exc is not None:
                return v("resume_rejected", exc_type=res.exc_type)
            g["phase"] = 2
            g["first_dispatch_after_resume"] = True
            return []
        if op == "req":
            # a cancel (or anything else) ends the comparison for this history
            g["phase"] = 3
            g["_twin"] = None
            g["twin_key"] = None
            return []
        if g["phase"] == 3:
            return []
        twin = Sim.restore(self.scn, g["_twin"])
        out = []
        if op == "dispatch":
            if g["phase"] == 1:
                self.stats["paused_steps"] += 1
                if res.offers and pre["status"] in (st.PAUSING, st.PAUSED):
                    return v("offer_while_pausing_or_paused", status=pre["status"],
                             has_items=any("items_count" in o for o in res.offers))
                # the twin is free to launch (that is the work being held back)
                twin.apply(["dispatch"], check_pure=False)
            else:
                if g["first_dispatch_after_resume"]:
                    g["first_dispatch_after_resume"] = False
                    self.stats["resume_offers_compared"] += 1
                    twin.apply(["dispatch"], check_pure=False)
                    held_back = sorted(json.dumps(a) for a in twin.h["inflight"] if a not in pre["h"]["inflight"])
                    offered = sorted(json.dumps(a) for a in sim.h["inflight"] if a not in pre["h"]["inflight"])
                    if held_back != offered:
                        return v("resume_did_not_release_held_work",
                                 _detail={"twin_in_flight_not_in_main": held_back, "offered_on_resume": offered})
                else:
                    twin.apply(["dispatch"], check_pure=False)
        elif op in ("complete", "release"):
            a = res.extra["action"]
            try:
                idx = twin.h["inflight"].index(a)
            except ValueError:
                return v("paused_run_completed_action_unknown_to_twin", _detail={"action": a})
            tm = list(move)
            tm[1] = idx
            tm[4] = list(a)
            tres = twin.apply(tm, check_pure=False)
            self.stats["twin_steps"] += 1
            if (tres.exc_type or None) != (res.exc_type or None):
                return v("exception_differs_from_twin", main=res.exc_type, twin=tres.exc_type)
        elif op == "render":
            twin.apply(["render"], check_pure=False)
        self._store(g, twin)
        if g["phase"] == 1:
            out.extend(self._pause_invariants(g, sim, post, res, move))
        return out

    def _pause_invariants(self, g, sim, post, res, move):
        status = post["status"]
        infl = sim.h["inflight"]
        if status in (st.FAILED, st.CANCELED, st.SUCCEEDED):
            return []
        if status == st.PAUSED and infl:
            return [{"kind": "paused_with_action_in_flight", "sig": {}, "detail": list(infl)}]
        if status == st.PAUSING and not infl and not sim.h["held"]:
            return [{"kind": "pausing_with_nothing_in_flight",
                     "sig": {"retrying": any(r.get("status") == "retrying" for r in post["state"]["sequence"])},
                     "detail": ""}]
        if status not in (st.PAUSING, st.PAUSED):
            return [{"kind": "left_pause_statuses_without_resume", "sig": {"status": status}, "detail": ""}]
        return []

    def on_leaf(self, sim, post, ctx):
        g = sim.ghost.get(self.name)
        if not g or sim.h["inflight"] or sim.h["held"] or sim.h["broken"] or g["_twin"] is None:
            return []
        if not (g["phase"] == 2 or (g["phase"] == 1 and sim.status in (st.FAILED, st.SUCCEEDED, st.CANCELED))):
            return []
        twin = Sim.restore(self.scn, g["_twin"])
        # let the twin launch anything it has not launched yet (nothing should be left)
        twin.apply(["dispatch"], check_pure=False)
        if twin.h["inflight"]:
            return [{"kind": "outcome_differs_from_unpaused_run",
                     "sig": {"aspect": "work_left_in_twin"},
                     "detail": {"twin_in_flight": twin.h["inflight"], "main_status": sim.status}}]
        self.stats["twin_endings_compared"] += 1
        a, b = outcome(sim), outcome(twin)
        if a != b:
            aspect = [k for k in ("status", "executed", "errors", "output") if a[k] != b[k]][0]
            sig = {"aspect": aspect}
            if aspect == "status":
                sig["paused_run"] = a["status"]
                sig["unpaused_run"] = b["status"]
                sig["fail_command_in_definition"] = '"fail"' in json.dumps(self.scn.wf) or "fail" in json.dumps(self.scn.wf)
            return [{"kind": "outcome_differs_from_unpaused_run", "sig": sig,
                     "detail": {"paused_run": a, "unpaused_run": b}}]
        return []
