"""Monitors that step the token-game reference in lock-step with the conductor."""

import json

from vx import refdef as rd
from vx import refmodel as rm
from vx.explore import Monitor
from vx.sim import st, ENGINE_COMMANDS

ACTIVE_WF = set(st.ACTIVE_STATUSES)
COMPLETED = set(st.COMPLETED_STATUSES)


def latest_record(view, task, route):
    s = view["state"]
    idx = s["tasks"].get("%s__r%s" % (task, route))
    if idx is None:
        return None
    return s["sequence"][idx]


class FlowBase(Monitor):
    """Steps the reference; subclasses decide what to report."""

    name = "flow"
    prop = "C01"
    strict_join = True
    track_ctx = True

    def __init__(self, scn, cfg):
        super(FlowBase, self).__init__(scn, cfg)
        self.ref = rm.Ref(scn.wf, strict_join=self.strict_join, track_ctx=self.track_ctx)
        self.stats = {"offers_matched": 0, "completions_stepped": 0, "trusted_conditions": 0,
                      "quiescent_success_checked": 0, "histories_ref_off": 0, "ctx_compared": 0}

    def init_ghost(self, sim):
        return rm.new_state()

    # hooks for subclasses ---------------------------------------------------
    def on_ref_violation(self, e, move, sim, res, post):
        return [{"kind": e.kind, "sig": e.sig, "detail": e.detail}]

    def check_offer(self, g, offer, run, consumed, post):
        return []

    def check_completion(self, g, info, pre, post, sim, res):
        return []

    def check_quiescent(self, g, sim, post):
        return []

    def check_other(self, g, pre, move, sim, res, post):
        return []

    def on_rerun(self, g, pre, move, sim, res, post):
        g["off"] = "rerun"
        return []

    # route numbers are opaque labels: they are bound to reference lineages when the engine creates them
    def lineage_of(self, g, view, route):
        k = str(route)
        if k in g["rmap"]:
            return list(g["rmap"][k])
        return list(view["state"]["routes"][route])

    def bind_new_routes(self, g, pre, post, info):
        n0, n1 = len(pre["state"]["routes"]), len(post["state"]["routes"])
        if n1 <= n0:
            return
        bound = [json.dumps(v) for v in g["rmap"].values()]
        for idx in range(n0, n1):
            content = list(post["state"]["routes"][idx])
            for (tgt, lin, what) in info.get("targets", []):
                if what == "token" and rm.Ref.strip(lin) == content and json.dumps(lin) not in bound:
                    g["rmap"][str(idx)] = list(lin)
                    bound.append(json.dumps(lin))
                    break

    # -----------------------------------------------------------------------
    def on_step(self, pre, move, sim, res, post, ctx):
        g = sim.ghost[self.name]
        if g["off"]:
            return []
        op = move[0]
        out = []
        try:
            if op == "start":
                if res.exc is None and post["state"] and post["state"]["contexts"]:
                    self.ref.start(g, rdplain(post["state"]["contexts"][0]))
                else:
                    g["off"] = "workflow did not start"
            elif op == "dispatch":
                if res.exc is not None:
                    g["off"] = "exception in dispatch"
                    return []
                for o in res.offers or []:
                    lineage = self.lineage_of(g, post, o["route"])
                    run, consumed = self.ref.offer(g, o["id"], lineage)
                    self.stats["offers_matched"] += 1
                    out.extend(self.check_offer(g, o, run, consumed, post) or [])
                    if o.get("items_count") == 0:
                        rec = latest_record(post, o["id"], o["route"])
                        info = self.ref.complete(g, o["id"], lineage, "succeeded", [], engine_rec=rec,
                                                 wf_active=pre["status"] in ACTIVE_WF,
                                                 engine_retried=bool(rec and rec.get("status") == "retrying"))
                        out.extend(self.check_completion(g, info, pre, post, sim, res) or [])
                if not res.offers and not sim.h["inflight"] and not sim.h["held"]:
                    out.extend(self.check_quiescent(g, sim, post) or [])
            elif op in ("complete", "release"):
                if res.exc is not None:
                    g["off"] = "exception in update_task_state"
                    return []
                task, route, item = res.extra["action"]
                lineage = self.lineage_of(g, pre, route)
                rec = latest_record(post, task, route)
                prec = latest_record(pre, task, route)
                if item is None:
                    status = res.extra["status"]
                    result = res.extra["result"]
                else:
                    # with-items: the task completes when the engine's record does (C12 judges that)
                    pstat = prec.get("status") if prec else None
                    rstat = rec.get("status") if rec else None
                    same_rec = len(pre["state"]["sequence"]) == len(post["state"]["sequence"])
                    if rstat not in COMPLETED and rstat != "retrying":
                        return out
                    if rstat == pstat and same_rec:
                        return out
                    if rstat == "retrying":
                        status = self._items_status(pre, task, route, res.extra["status"])
                    else:
                        status = rstat
                    result = list(sim.h["acc"].get("%s__r%s" % (task, route), []))
                    i = self.ref.find_run(g, task, lineage)
                    if i is not None and g["run"][i][4] is not None:
                        g["run"][i][4]["done"] = True
                info = self.ref.complete(
                    g, task, lineage, status, result, engine_rec=rec,
                    wf_active=pre["status"] in ACTIVE_WF,
                    engine_retried=bool(rec and rec.get("status") == "retrying"),
                )
                self.bind_new_routes(g, pre, post, info)
                self.stats["completions_stepped"] += 1
                self.stats["trusted_conditions"] += info.get("trusted", 0)
                out.extend(self.check_completion(g, info, pre, post, sim, res) or [])
            elif op == "rerun":
                out.extend(self.on_rerun(g, pre, move, sim, res, post) or [])
            else:
                out.extend(self.check_other(g, pre, move, sim, res, post) or [])
        except rm.RefViolation as e:
            return self.on_ref_violation(e, move, sim, res, post)
        except rm.RefOff as e:
            g["off"] = str(e)
        if g["off"]:
            self.stats["histories_ref_off"] += 1
        return out

    @staticmethod
    def _items_status(pre, task, route, this_status):
        sts = [this_status]
        for e in pre["state"]["staged"]:
            if e["id"] == task and e["route"] == route:
                sts += [i.get("status") for i in e.get("items", [])]
        return "failed" if any(x in ("failed", "timeout", "abandoned") for x in sts) else "succeeded"


def non_failure_errors_present(post):
    return any(not e.get("message", "").startswith("Execution failed.") for e in post["errors"])


def rdplain(d):
    return dict(d)


def executed_multiset(view):
    out = {}
    for r in view["state"]["sequence"]:
        if r["id"] in ENGINE_COMMANDS:
            continue
        out[r["id"]] = out.get(r["id"], 0) + 1
    return out


class Justified(FlowBase):
    """C01: every offer consumes a due execution; on success nothing is lost or duplicated."""

    name = "c01"
    prop = "C01"
    strict_join = False
    track_ctx = True

    def on_ref_violation(self, e, move, sim, res, post):
        kind = e.kind
        if kind == "join_barrier_not_met":
            kind = "unjustified_offer"
        return [{"kind": kind, "sig": e.sig, "detail": e.detail}]

    def check_quiescent(self, g, sim, post):
        if post["status"] == st.FAILED and not sim.h["cancel_req"] and not sim.h["pause_req"]:
            pend = self.ref.pending_cleanup(g)
            if pend and not non_failure_errors_present(post):
                return [{"kind": "cleanup_task_never_offered", "sig": {},
                         "detail": "tasks listed beside a satisfied fail command were never offered: %s" % pend}]
        if post["status"] != st.SUCCEEDED:
            return []
        self.stats["quiescent_success_checked"] += 1
        out = []
        pend = self.ref.pending_unconsumed(g)
        if pend:
            t = pend[0][0]
            out.append({
                "kind": "lost_execution",
                "sig": {"task_is_join": self.ref.d.is_join(t), "has_items": bool(self.ref.d.tasks[t]["with"])},
                "detail": "workflow succeeded but due executions were never offered: %s" % pend,
            })
            return out
        eng = executed_multiset(post)
        exp = {}
        for k, n in g["execs"].items():
            t = k.split("|", 1)[0]
            exp[t] = exp.get(t, 0) + n
        if eng != exp:
            diff = sorted(set(eng) | set(exp))
            diff = [t for t in diff if eng.get(t, 0) != exp.get(t, 0)]
            out.append({
                "kind": "execution_multiset_mismatch",
                "sig": {"tasks_are_joins": all(self.ref.d.is_join(t) for t in diff if t in self.ref.d.tasks)},
                "detail": {"engine": eng, "reference": exp},
            })
        return out


class JoinBarrier(FlowBase):
    """C07: barrier safety, uniqueness, unreachable-join reporting."""

    name = "c07"
    prop = "C07"
    strict_join = True
    track_ctx = False

    def on_ref_violation(self, e, move, sim, res, post):
        if e.kind in ("join_redispatched", "join_barrier_not_met"):
            return [{"kind": e.kind, "sig": e.sig, "detail": e.detail}]
        # not this property's business (C01 reports it); stop following this history
        sim.ghost[self.name]["off"] = "non-join reference divergence: %s" % e.kind
        return []

    def check_quiescent(self, g, sim, post):
        status = post["status"]
        # a join whose barrier is satisfied must run (once per satisfaction)
        due = [t for t in g["tok"] if self.ref.d.is_join(t[0])]
        if due and status not in (st.FAILED, st.CANCELED) and not sim.h["cancel_req"] and not (
                status == st.PAUSED and sim.h["pause_req"]):
            return [{"kind": "satisfied_join_never_ran",
                     "sig": {"status": status, "in_cycle": self.ref.d.in_cycle(due[0][0])},
                     "detail": "barrier of %s satisfied on lineage %s but the join was never offered" % (
                         due[0][0], due[0][1])}]
        partial = self.ref.partial_joins(g)
        if not partial:
            return []
        self.stats["quiescent_success_checked"] += 1
        status = post["status"]
        if sim.h["cancel_req"] or status == st.PAUSED:
            return []
        if status not in COMPLETED:
            if status in (st.RUNNING, st.RESUMING) and not sim.h["pause_req"] and not sim.h["reruns"]:
                # nothing in flight, nothing on offer, a join that can no longer be satisfied: hanging
                return [{"kind": "hanging_with_partial_join",
                         "sig": {"status": status, "after_partial_join_rerun": sim.h["rejoin"],
                                 "resumed_while_pausing_with_items_in_flight": bool(
                                     sim.h.get("resumed_while_pausing_items")),
                                 "with_items_item_went_pending": bool(sim.h.get("item_went_pending"))},
                         "detail": "workflow is %s with nothing to do while joins %s are partially satisfied" % (
                             status, partial)}]
            return []
        out = []
        if status == st.SUCCEEDED:
            out.append({
                "kind": "succeeded_with_partial_join",
                "sig": {"n_partial": min(len(partial), 2)},
                "detail": "workflow succeeded although joins %s were partially satisfied" % partial,
            })
            return out
        if status == st.FAILED and not g["fatal"]:
            for (task, lineage, n) in partial:
                ok = any(
                    e.get("task_id") == task and "UnreachableJoinError" in e.get("message", "")
                    for e in post["errors"]
                )
                if not ok:
                    out.append({
                        "kind": "unreachable_join_not_reported",
                        "sig": {},
                        "detail": "join %s partially satisfied (%d), workflow failed without an "
                                  "UnreachableJoinError entry: %s" % (task, n, post["errors"]),
                    })
                    break
        return out


class DataFlow(FlowBase):
    """C06: offered context == overlay of causal ancestors' publishes."""

    name = "c06"
    prop = "C06"
    strict_join = False
    track_ctx = True

    def on_ref_violation(self, e, move, sim, res, post):
        sim.ghost[self.name]["off"] = "control-flow divergence: %s" % e.kind
        return []

    def check_offer(self, g, offer, run, consumed, post):
        exp = self.ref.plain(run[2])
        if exp is None:
            return []
        got = offer["ctx"]
        self.stats["ctx_compared"] += 1
        bad = {}
        for k in sorted(set(exp) | set(got)):
            ev = exp.get(k, "$absent")
            gv = got.get(k, "$absent")
            if ev == rd.UNKNOWN or gv == ev:
                continue
            bad[k] = {"expected": ev, "offered": gv}
        out = []
        for var in sorted(bad):
            b = bad[var]
            kind = "leaked_variable" if b["expected"] == "$absent" else (
                "missing_variable" if b["offered"] == "$absent" else "wrong_value")
            sig = {"task_is_join": self.ref.d.is_join(offer["id"])}
            if kind == "wrong_value":
                ev, gv = b["expected"], b["offered"]
                bnd = run[2].get(var) if run[2] else None
                sig["variable_republished"] = bool(bnd and bnd[2])
                sig["offered_is_deep_merge_of_older_dict"] = bool(
                    isinstance(ev, dict) and isinstance(gv, dict) and set(ev) < set(gv)
                    and all(gv[k] == ev[k] for k in ev))
                if run[2] is not None:
                    # was the offered value an older version that the expected one superseded?
                    sig["stale_over_newer"] = self._is_older(g, run[2].get(var), b["offered"])
            out.append({"kind": kind, "sig": sig,
                        "detail": {"task": offer["id"], "route": offer["route"], "variable": var, "diff": bad}})
        return out

    @staticmethod
    def _is_older(g, binding, offered_value):
        if not binding:
            return None
        return any(g["vals"].get(v, "$none") == offered_value for v in binding[2])


def partial_join_tasks(ref, g):
    return ref.partial_joins(g)
