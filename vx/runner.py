"""Distribute scenarios over worker processes, confirm and classify violations,
write evidence and replay files."""

import collections
import hashlib
import importlib
import json
import multiprocessing as mp
import os
import sys
import time

import vx  # noqa: F401
from vx import explore as ex
from vx.sim import Scenario, HarnessError

VERIF = os.path.dirname(os.path.dirname(os.path.abspath(__file__)))
FINDINGS_FILE = os.path.join(VERIF, "KNOWN_FINDINGS.json")

ASSUMPTIONS = [
    "provider protocol: every action offered by one get_next_tasks() answer is acknowledged "
    "(running) before anything else is reported; the provider reports only on actions it was offered",
    "the conductor is called from one thread at a time (callers serialise; no locking in conducting.py)",
    "definitions, outcome menus and control-request budgets are limited to the stated bounds "
    "(small-scope hypothesis)",
    "checks run with /venv/bin/python against the current working tree of /repo (editable install) "
    "or VERIF_REPO",
]


def resolve(name):
    mod, cls = name.rsplit(".", 1)
    return getattr(importlib.import_module(mod), cls)


def _work(job):
    try:
        scn = Scenario.from_json(job["scn"])
        cfg = ex.Config(**job["cfg"])
        mons = [resolve(n) for n in job["monitors"]]
        deadline = job.get("deadline")
        cap = int(os.environ.get("VERIF_MAX_STATES") or 0)
        if cap > 0:
            # deterministic per-exploration state cap (breadth-first prefix); a capped exploration is
            # reported as incomplete (state_cap_hit), never as exhaustive
            cfg.max_states = min(cfg.max_states, cap)
        # definitions must be inspection-clean unless the job says otherwise
        if job.get("require_clean", True):
            insp = scn.inspection
            if insp:
                return {"name": scn.name, "skipped": "inspection", "inspection": insp}
        stats, viols, samples, extra = ex.explore(scn, cfg, mons, deadline=deadline)
        out_v = []
        for v in viols:
            v = dict(v)
            try:
                prior = [v["pair"]] if v.get("pair") else None
                _, found = ex.run_path(scn, cfg, mons, v["history"], prior=prior)
            except HarnessError as e:
                v["confirmed"] = False
                v["confirm_error"] = str(e)
                out_v.append(v)
                continue
            want = (v["property"], v["kind"], json.dumps(v.get("sig", {}), sort_keys=True))
            got = [
                (f["property"], f["kind"], json.dumps(f.get("sig", {}), sort_keys=True)) for f in found
            ]
            v["confirmed"] = want in got or not v["history"]
            out_v.append(v)
        return {
            "name": scn.name,
            "family": scn.family,
            "stats": stats,
            "violations": out_v,
            "samples": samples,
            "extra": extra,
        }
    except HarnessError as e:
        return {"name": job["scn"]["name"], "harness_error": str(e)}
    except Exception as e:  # harness bug: never a property verdict
        import traceback

        return {"name": job["scn"]["name"], "harness_error": traceback.format_exc()}


def load_findings():
    if not os.path.exists(FINDINGS_FILE):
        return []
    with open(FINDINGS_FILE) as f:
        return json.load(f)["findings"]


def match_finding(v, findings):
    for f in findings:
        if f.get("status", "known") != "known":
            continue
        if f["property"] != v["property"] or f["kind"] != v["kind"]:
            continue
        sig = v.get("sig", {})
        if all(sig.get(k) == val for k, val in f.get("match", {}).items()):
            return f
    return None


def write_replay(v):
    d = os.path.join(VERIF, "replays", v["property"])
    os.makedirs(d, exist_ok=True)
    body = {
        "property": v["property"],
        "kind": v["kind"],
        "sig": v.get("sig", {}),
        "detail": v.get("detail"),
        "scenario": v["scenario"],
        "cfg": v.get("cfg"),
        "history": v["history"],
        "pair": v.get("pair"),
        "monitors": v.get("monitors"),
    }
    if v.get("fn"):
        body["fn"] = v["fn"]
        body["case"] = v.get("case")
    text = json.dumps(body, indent=1, sort_keys=True, default=repr)
    h = hashlib.sha1(text.encode()).hexdigest()[:12]
    path = os.path.join(d, "%s-%s.json" % (v["kind"], h))
    with open(path, "w") as f:
        f.write(text)
    return path


def run_jobs(jobs, nproc=None, seed=0):
    """Run jobs in a pool of long-lived spawn-ed workers (hash seed from ``seed``)."""
    nproc = nproc or int(os.environ.get("VERIF_PROCS", "16"))
    nproc = max(1, min(nproc, len(jobs)))
    # rotate scheduling order by seed (coverage unaffected), then start the expected long poles first
    if jobs and seed:
        k = seed % len(jobs)
        jobs = jobs[k:] + jobs[:k]
    jobs = sorted(jobs, key=lambda j: -j.get("weight", 0))
    budget = os.environ.get("VERIF_BUDGET_S")
    if budget and float(budget) > 0:
        # wall-clock budget for the whole pool: an exploration still running (or not yet started) at the
        # deadline stops expanding and is reported as incomplete (never as exhaustive)
        dl = time.time() + float(budget)
        for j in jobs:
            if not j.get("deadline"):
                j["deadline"] = dl
    os.environ["PYTHONHASHSEED"] = str(seed % 4294967295)
    ctx = mp.get_context("spawn")
    results = []
    if nproc == 1:
        for j in jobs:
            results.append(_work(j))
        return results
    with ctx.Pool(nproc) as pool:
        for r in pool.imap_unordered(_work, jobs, chunksize=1):
            results.append(r)
    return results


def finish(prop, tier, seed, level, results, rule, t0, monitors, extra_cov=None, assumptions=None,
           extra_violations=None):
    """Aggregate results; print verdict lines; write evidence. Returns exit code."""
    findings = load_findings()
    tot = collections.Counter()
    viols = []
    harness_errors = []
    skipped = []
    samples = []
    families = collections.Counter()
    incomplete = []
    extra_tot = collections.defaultdict(collections.Counter)
    for r in results:
        if "harness_error" in r:
            harness_errors.append(r)
            continue
        if "skipped" in r:
            skipped.append(r["name"])
            continue
        s = r["stats"]
        for k, v in s.items():
            if isinstance(v, (int, float)) and k not in ("wall_s", "max_depth", "complete"):
                tot[k] += v
        tot["max_depth"] = max(tot["max_depth"], s.get("max_depth", 0))
        tot["scenarios"] += 1
        families[r.get("family", "")] += 1
        if not s.get("complete"):
            incomplete.append(r["name"])
        for v in r["violations"]:
            v["monitors"] = monitors
            viols.append(v)
        for mname, st_ in (r.get("extra") or {}).items():
            for k, v in st_.items():
                if isinstance(v, (int, float)):
                    extra_tot[mname][k] += v
        if r["samples"] and len(samples) < 3:
            samples.append({"scenario": r["name"], "history": r["samples"][0]})
    for v in extra_violations or []:
        viols.append(v)
    if os.environ.get("VERIF_DEBUG"):
        top = sorted((r for r in results if "stats" in r), key=lambda r: -r["stats"]["wall_s"])[:15]
        for r in top:
            print("  top: %-45s states=%d trans=%d wall=%.1fs" % (r["name"], r["stats"]["states"],
                  r["stats"]["transitions"], r["stats"]["wall_s"]))

    code = 0
    known_hit = collections.OrderedDict()
    new_viols = []
    unconfirmed = []
    for v in viols:
        if v.get("property") != prop:
            # a monitor of another property riding along: ignore here
            continue
        if not v.get("confirmed", True):
            unconfirmed.append(v)
            continue
        f = match_finding(v, findings)
        if f is not None:
            if f["id"] not in known_hit and os.environ.get("VERIF_DUMP_KNOWN"):
                # maintenance: write one witness replay per known finding (never part of a normal run)
                body = dict(v)
                body.pop("confirmed", None)
                wd = os.path.join(VERIF, "findings")
                os.makedirs(wd, exist_ok=True)
                with open(os.path.join(wd, "%s.json" % f["id"]), "w") as fh:
                    json.dump({"property": v["property"], "kind": v["kind"], "sig": v.get("sig", {}),
                               "detail": v.get("detail"), "scenario": v["scenario"], "cfg": v.get("cfg"),
                               "history": v["history"], "pair": v.get("pair"), "monitors": v.get("monitors")},
                              fh, indent=1, sort_keys=True, default=repr)
            known_hit.setdefault(f["id"], [f, 0])
            known_hit[f["id"]][1] += 1
        else:
            new_viols.append(v)
    for fid, (f, n) in known_hit.items():
        print("KNOWN-FINDING: property=%s %s [%s; %d scenario(s)]" % (prop, f["what"], fid, n))
    seen_sig = set()
    for v in new_viols:
        sk = (v["kind"], json.dumps(v.get("sig", {}), sort_keys=True))
        path = write_replay(v)
        if sk in seen_sig and len(seen_sig) > 20:
            continue
        seen_sig.add(sk)
        print("VIOLATION property=%s replay=%s" % (prop, path))
        print("  kind=%s sig=%s scenario=%s" % (v["kind"], json.dumps(v.get("sig", {}), sort_keys=True),
                                              v["scenario"]["name"]))
        code = 1
    if harness_errors or unconfirmed:
        for r in harness_errors[:5]:
            print("HARNESS-ERROR scenario=%s\n%s" % (r["name"], r["harness_error"]), file=sys.stderr)
        for v in unconfirmed[:5]:
            print(
                "HARNESS-ERROR unconfirmed violation kind=%s scenario=%s (%s)"
                % (v["kind"], v["scenario"]["name"], v.get("confirm_error", "replay did not reproduce")),
                file=sys.stderr,
            )
        if code == 0:
            code = 2

    cov = {
        "states": int(tot["states"]),
        "transitions": int(tot["transitions"]),
        "traces_validated_against_impl": int(tot["leaves"]),
        "programs": int(tot["scenarios"]),
        "api_calls": int(tot["api_calls"]),
        "complete_histories": int(tot["leaves"]),
        "max_depth": int(tot["max_depth"]),
        "distinct_terminal_observations": int(tot["terminal_observations"]),
        "families": dict(families),
        "scenarios_incomplete": incomplete[:50],
        "scenarios_incomplete_count": len(incomplete),
        "time_budget_s": float(os.environ.get("VERIF_BUDGET_S") or 0) or None,
        "scenarios_cut_by_time_budget": int(tot.get("timed_out", 0)),
        "state_cap_per_exploration": int(os.environ.get("VERIF_MAX_STATES") or 0) or None,
        "scenarios_cut_by_state_cap": int(tot.get("state_cap_hit", 0)),
        "scenarios_skipped_by_inspection": len(skipped),
        "pruned_subtrees": int(tot["pruned_subtrees"]),
        "violating_transitions": int(tot["violating_transitions"]),
        "known_findings_hit": {k: n for k, (f, n) in known_hit.items()},
        "new_violations": len(new_viols),
        "monitor_counters": {k: dict(v) for k, v in extra_tot.items()},
        "rule": rule,
        "samples": samples or [{"note": "no complete history recorded"}],
        "exhaustive": not incomplete and not harness_errors,
        "evaluations": int(tot["transitions"]),
        "distinct_nontrivial": int(tot["states"]),
    }
    if extra_cov:
        cov.update(extra_cov)
    ev = {
        "property_id": prop,
        "tier": tier,
        "seed": int(seed),
        "level": level,
        "coverage": cov,
        "assumptions": list(ASSUMPTIONS) + list(assumptions or []),
        "wall_s": round(time.time() - t0, 2),
        "violations": len(new_viols),
    }
    write_evidence(prop, ev)
    print(
        "%s tier=%s scenarios=%d states=%d transitions=%d histories=%d known=%d new=%d wall=%.1fs exit=%d"
        % (prop, tier, tot["scenarios"], tot["states"], tot["transitions"], tot["leaves"],
           sum(n for _, n in known_hit.values()), len(new_viols), time.time() - t0, code)
    )
    return code


def write_evidence(prop, ev):
    if os.environ.get("VERIF_PARTIAL"):
        return
    d = os.path.join(VERIF, "evidence")
    os.makedirs(d, exist_ok=True)
    try:
        import jsonschema

        with open("/root/.vp/EVIDENCE.schema.json") as f:
            schema = json.load(f)
        jsonschema.validate(ev, schema)
    except ImportError:
        pass
    except FileNotFoundError:
        pass
    with open(os.path.join(d, "%s.json" % prop), "w") as f:
        json.dump(ev, f, indent=1, sort_keys=True, default=repr)


def finish_static(prop, tier, seed, level, parts, rule, t0, samples, extra_cov=None, assumptions=None):
    """parts: list of (fn_name, results). Violations carry their own 'case'."""
    findings = load_findings()
    viols = []
    herr = []
    n_cases = 0
    n_skipped = 0
    for fn_name, results in parts:
        for r in results:
            if "harness_error" in r:
                herr.append(r)
                continue
            n_cases += 1
            if r.get("skipped"):
                n_skipped += 1
            for v in r.get("violations", []):
                v["fn"] = fn_name
                viols.append(v)
    code = 0
    known_hit = collections.OrderedDict()
    new_viols = []
    for v in viols:
        if v.get("property") != prop:
            continue
        f = match_finding(v, findings)
        if f is not None:
            known_hit.setdefault(f["id"], [f, 0])
            known_hit[f["id"]][1] += 1
        else:
            new_viols.append(v)
    for fid, (f, n) in known_hit.items():
        print("KNOWN-FINDING: property=%s %s [%s; %d case(s)]" % (prop, f["what"], fid, n))
    seen_sig = set()
    for v in new_viols:
        sk = (v["kind"], json.dumps(v.get("sig", {}), sort_keys=True, default=repr))
        if sk in seen_sig:
            continue
        seen_sig.add(sk)
        d = os.path.join(VERIF, "replays", prop)
        os.makedirs(d, exist_ok=True)
        body = {"property": prop, "kind": v["kind"], "sig": v.get("sig", {}), "detail": v.get("detail"),
                "fn": v["fn"], "case": v.get("case")}
        text = json.dumps(body, indent=1, sort_keys=True, default=repr)
        path = os.path.join(d, "%s-%s.json" % (v["kind"], hashlib.sha1(text.encode()).hexdigest()[:12]))
        with open(path, "w") as f:
            f.write(text)
        print("VIOLATION property=%s replay=%s" % (prop, path))
        print("  kind=%s sig=%s" % (v["kind"], json.dumps(v.get("sig", {}), sort_keys=True, default=repr)))
        code = 1
    if herr:
        for r in herr[:5]:
            print("HARNESS-ERROR\n%s" % r["harness_error"], file=sys.stderr)
        if code == 0:
            code = 2
    cov = {
        "evaluations": n_cases,
        "distinct_nontrivial": n_cases - n_skipped,
        "rule": rule,
        "samples": samples,
        "exhaustive": not herr,
        "cases_skipped_by_inspection": n_skipped,
        "known_findings_hit": {k: n for k, (f, n) in known_hit.items()},
        "new_violations": len(new_viols),
    }
    if extra_cov:
        cov.update(extra_cov)
    ev = {
        "property_id": prop, "tier": tier, "seed": int(seed), "level": level, "coverage": cov,
        "assumptions": list(assumptions or []) + [ASSUMPTIONS[2], ASSUMPTIONS[3]],
        "wall_s": round(time.time() - t0, 2), "violations": len(new_viols),
    }
    write_evidence(prop, ev)
    print("%s tier=%s cases=%d known=%d new=%d wall=%.1fs exit=%d"
          % (prop, tier, n_cases, sum(n for _, n in known_hit.values()), len(new_viols), time.time() - t0, code))
    return code
