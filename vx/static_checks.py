"""Checks that enumerate definitions / values rather than histories: C14, C15 (completeness
half), C16, C20. Each function takes one case (JSON) and returns a list of violations; cases
are distributed over worker processes by ``run_cases``."""

import copy
import itertools
import json
import math
import multiprocessing as mp
import os
import time

import vx  # noqa: F401
from vx import refdef as rd
from vx import runner

from orquesta import conducting
from orquesta import events
from orquesta import statuses as st
from orquesta import graphing
from orquesta.composers import native as native_comp
from orquesta.expressions import base as expr_base
from orquesta.specs import native as native_specs


# --------------------------------------------------------------------------- C14
def ref_graph(wf):
    """Dictionary-based reference composition: nodes, edges, attributes, roots."""
    d = rd.RefDef(wf)
    roots = d.roots()
    nodes = set()
    stack = list(roots)
    edges = []
    while stack:
        n = stack.pop()
        if n in nodes:
            continue
        nodes.add(n)
        if n not in d.tasks:
            continue
        for tidx, tr in enumerate(d.tasks[n]["next"]):
            for tgt in tr["do"]:
                if tgt == "retry":
                    continue
                stack.append(tgt)
    for n in sorted(nodes):
        if n not in d.tasks:
            continue
        for tidx, tr in enumerate(d.tasks[n]["next"]):
            for tgt in tr["do"]:
                if tgt == "retry":
                    continue
                crit = [tr["when_src"]] if tr["when_src"] else []
                edges.append((n, tgt, d.edge_key(n, tidx, tgt), json.dumps(crit), tidx))
    attrs = {}
    for n in nodes:
        a = {}
        if n in d.tasks:
            j = d.tasks[n]["join"]
            if j is not None:
                a["barrier"] = "*" if j == "all" else j
            t = d.tasks[n]
            pol = None
            if t["retry"]:
                r = t["retry"]
                pol = {"when": r.get("when"), "count": r.get("count"), "delay": r.get("delay")}
            cmd = [tr for tr in t["next"] if "retry" in tr["do"]]
            if cmd:
                pol = {"when": cmd[-1]["when_src"] or "<% completed() %>", "count": 3}
            if pol is not None:
                a["retry"] = pol
        attrs[n] = a
    return {"nodes": nodes, "edges": sorted(edges), "attrs": attrs, "roots": roots}


def impl_graph_view(ser):
    nodes = set()
    attrs = {}
    edges = []
    ids = [n["id"] for n in ser["nodes"]]
    for n in ser["nodes"]:
        nodes.add(n["id"])
        a = {}
        if n.get("barrier") not in (None, ""):
            a["barrier"] = n["barrier"]
        if n.get("retry") is not None:
            a["retry"] = n["retry"]
        attrs[n["id"]] = a
    for src, adj in zip(ids, ser["adjacency"]):
        for e in adj:
            edges.append((src, e["id"], e["key"], json.dumps(e.get("criteria", [])), e.get("ref")))
    return {"nodes": nodes, "edges": sorted(edges), "attrs": attrs}


def check_c14(case):
    wf = case["wf"]
    out = []

    def v(kind, detail, **sig):
        out.append({"property": "C14", "kind": kind, "sig": sig, "detail": detail, "case": case})

    spec = native_specs.WorkflowSpec(copy.deepcopy(wf))
    if spec.inspect():
        return {"skipped": True, "violations": []}
    g = native_comp.WorkflowComposer.compose(spec)
    ser = g.serialize()
    ref = ref_graph(wf)
    imp = impl_graph_view(ser)
    if imp["nodes"] != ref["nodes"]:
        v("node_set_differs", {"impl": sorted(imp["nodes"]), "ref": sorted(ref["nodes"])},
          missing=bool(ref["nodes"] - imp["nodes"]), extra=bool(imp["nodes"] - ref["nodes"]))
        return {"violations": out}
    if imp["edges"] != ref["edges"]:
        ie, re_ = set(imp["edges"]), set(ref["edges"])
        dup = len(imp["edges"]) != len(ie)
        v("edge_set_differs", {"impl_only": sorted(ie - re_), "ref_only": sorted(re_ - ie), "dup": dup},
          missing=bool(re_ - ie), extra=bool(ie - re_), duplicate=dup)
    for n in sorted(ref["nodes"]):
        if imp["attrs"].get(n, {}) != ref["attrs"].get(n, {}):
            which = sorted(k for k in set(imp["attrs"].get(n, {})) | set(ref["attrs"].get(n, {}))
                           if imp["attrs"].get(n, {}).get(k) != ref["attrs"].get(n, {}).get(k))
            v("node_attribute_differs", {"task": n, "impl": imp["attrs"].get(n), "ref": ref["attrs"].get(n)},
              attribute=which[0])
            break
    roots = [r["id"] for r in g.roots]
    if roots != ref["roots"]:
        v("roots_differ", {"impl": roots, "ref": ref["roots"]})
    # declaration order independence
    names = list(wf["tasks"].keys())
    perms = list(itertools.permutations(names)) if len(names) <= 4 else \
        [names[::-1], names[1:] + names[:1], sorted(names), sorted(names, reverse=True)]
    base = json.dumps(ser, sort_keys=True)
    for p in perms:
        wf2 = copy.deepcopy(wf)
        wf2["tasks"] = {n: wf2["tasks"][n] for n in p}
        s2 = native_comp.WorkflowComposer.compose(native_specs.WorkflowSpec(wf2)).serialize()
        if json.dumps(s2, sort_keys=True) != base:
            v("depends_on_declaration_order", {"order": list(p)})
            break
    # serialisation round trip incl. parallel-edge keys
    g2 = graphing.WorkflowGraph.deserialize(ser)
    ser2 = g2.serialize()
    if json.dumps(ser2, sort_keys=True) != base:
        v("graph_roundtrip_differs", {})
    else:
        for (src, dst, key, crit, refi) in ref["edges"]:
            try:
                e = g2.get_transition(src, dst, key=key)
                if json.dumps(e[3].get("criteria", [])) != crit or e[3].get("ref") != refi:
                    v("restored_edge_identity_differs", {"edge": [src, dst, key]})
                    break
            except Exception as ex:
                v("restored_edge_missing", {"edge": [src, dst, key], "exc": str(ex)})
                break
        if [r["id"] for r in g2.roots] != roots:
            v("restored_roots_differ", {})
        for n in sorted(ref["nodes"]):
            if n in ref["attrs"] and "barrier" in ref["attrs"][n]:
                if g2.get_barrier(n) != ref["attrs"][n]["barrier"]:
                    v("restored_barrier_differs", {"task": n})
    # conducting never changes the composed graph (what gets persisted stays the definition's graph)
    try:
        from vx import c19 as c19m

        for mode in ("mixed", "all_fail"):
            art = c19m.artefacts(wf, case.get("inputs"), mode=mode)
            final = [x for x in art.get("conduct", []) if x[0] == "final"]
            if final and json.dumps(final[0][1]["graph"], sort_keys=True) != base:
                v("graph_changed_by_conducting", {"mode": mode})
                break
    except Exception as ex:
        v("conducting_raised", {"exc": "%s: %s" % (type(ex).__name__, ex)})
    return {"violations": out, "nodes": len(ref["nodes"]), "edges": len(ref["edges"])}


# --------------------------------------------------------------------------- C15 completeness
BROKEN = {"yaql": "<% 1 +/ 2 %>", "jinja": "{{ 1 +/ 2 }}",
          # valid Jinja bodies that are not YAQL grammar (a definition ported by swapping delimiters only)
          "yaql_pipe": "<% ctx().xs | length %>", "yaql_ternary": "<% 1 if true else 2 %>"}
JINJA_TWINS = {"<% ctx().xs | length %>": "{{ ctx().xs | length }}", "<% 1 if true else 2 %>": "{{ 1 if true else 2 }}"}
UNASSIGNED = ["<% ctx(zq) %>", "<% ctx().zq %>", "<% ctx('zq') %>", '<% ctx("zq") %>',
              "{{ ctx('zq') }}", "{{ ctx().zq }}", '{{ ctx("zq") }}']
RESERVED = ("noop", "fail", "continue", "retry")


def single_fault_mutants(wf):
    """Yield (fault_class, site, expected_spec_path_prefix, mutant)."""
    tasks = list(wf["tasks"].keys())
    d = rd.RefDef(wf)
    reach = d.reachable()
    # (a) transition target renamed to an undefined task
    for t in tasks:
        if t not in reach:
            continue
        for i, tr in enumerate(wf["tasks"][t].get("next") or []):
            do = rd.norm_do(tr.get("do"))
            for j, tgt in enumerate(do):
                if tgt in RESERVED:
                    continue
                m = copy.deepcopy(wf)
                nd = list(do)
                nd[j] = "ghost_task"
                m["tasks"][t]["next"][i]["do"] = nd
                yield ("undefined_target", "%s.next[%d].do[%d]" % (t, i, j), "tasks.%s.next[%d].do" % (t, i), m)
    # (a') a task definition removed: every transition that names it must be reported
    for t in tasks:
        refs = [(src, i) for src in tasks if src in reach and src != t
                for i, tr in enumerate(wf["tasks"][src].get("next") or []) if t in rd.norm_do(tr.get("do"))]
        if len(refs) >= 2 and t in reach:
            m = copy.deepcopy(wf)
            del m["tasks"][t]
            still = rd.RefDef(m).reachable()  # the statement covers reachable transitions only
            for (src, i) in refs:
                if src not in still:
                    continue
                yield ("undefined_target_multi", "%s removed; %s.next[%d]" % (t, src, i),
                       "tasks.%s.next[%d].do" % (src, i), m)
    # (b) a task named like an engine command
    for r in RESERVED:
        m = copy.deepcopy(wf)
        m["tasks"][r] = {"action": "core.noop"}
        yield ("reserved_name", r, "tasks.%s" % r, m)
    # (c) close the graph so that no start task remains
    roots = d.roots()
    leaves = [t for t in tasks if not wf["tasks"][t].get("next")]
    if roots and leaves:
        m = copy.deepcopy(wf)
        m["tasks"][leaves[0]]["next"] = [{"do": list(roots)}]
        d2 = rd.RefDef(m)
        if not d2.roots():
            yield ("no_start_task", leaves[0], "tasks", m)
    # (d) broken grammar and (e) unassigned variable at every expression-bearing site
    sites = []
    for t in tasks:
        if t not in reach:
            continue
        sites.append(("tasks.%s.action" % t, ("tasks", t, "action")))
        act = wf["tasks"][t].get("action")
        if not (isinstance(act, str) and " " in act.strip()):
            # an action written with inline parameters replaces the task's `input` altogether: an expression
            # injected there is not part of the effective definition
            sites.append(("tasks.%s.input" % t, ("tasks", t, "input", "p")))
        for i, tr in enumerate(wf["tasks"][t].get("next") or []):
            sites.append(("tasks.%s.next[%d].when" % (t, i), ("tasks", t, "next", i, "when")))
            sites.append(("tasks.%s.next[%d].publish" % (t, i), ("tasks", t, "next", i, "publish")))
    sites.append(("vars", ("vars",)))
    sites.append(("output", ("output",)))
    # (f) forward reference inside one ordered list: entry i reads a variable only a later entry assigns
    for form in ("<% ctx(later_var) %>", "{{ ctx('later_var') }}"):
        m = copy.deepcopy(wf)
        m["vars"] = list(m.get("vars") or []) + [{"first_var": 1}, {"injected": form}, {"later_var": 2}]
        yield ("forward_reference", "vars <- " + form, "vars", m)
        for t in tasks:
            if t not in reach:
                continue
            for i, tr in enumerate(wf["tasks"][t].get("next") or []):
                if isinstance(tr.get("publish"), str):
                    continue
                m = copy.deepcopy(wf)
                pub = list(m["tasks"][t]["next"][i].get("publish") or [])
                m["tasks"][t]["next"][i]["publish"] = pub + [{"first_var": 1}, {"injected": form}, {"later_var": 2}]
                yield ("forward_reference", "%s.next[%d].publish <- %s" % (t, i, form),
                       "tasks.%s.next[%d].publish" % (t, i), m)
                break
    for path, loc in sites:
        for cls, exprs in (("broken_grammar", list(BROKEN.values())), ("unassigned_variable", UNASSIGNED)):
            for e in exprs:
                m = copy.deepcopy(wf)
                _inject(m, loc, e)
                yield (cls, path + " <- " + e, path, m)


def _inject(m, loc, e):
    if loc[0] == "vars":
        m["vars"] = list(m.get("vars") or []) + [{"injected": e}]
        return
    if loc[0] == "output":
        m["output"] = list(m.get("output") or []) + [{"injected": e}]
        return
    t = m["tasks"][loc[1]]
    if loc[2] == "action":
        t["action"] = e
    elif loc[2] == "input":
        inp = t.get("input")
        if not isinstance(inp, dict):
            inp = {}
        inp = dict(inp)
        inp["p"] = e
        t["input"] = inp
    elif loc[2] == "next":
        tr = t["next"][loc[3]]
        if loc[4] == "when":
            tr["when"] = e
        else:
            pub = tr.get("publish")
            if isinstance(pub, str) or pub is None:
                pub = []
            tr["publish"] = list(pub) + [{"injected": e}]


def check_c15_one(case):
    """One single-fault mutant: inspect() must report the fault at its site."""
    m, cls, site, path = case["wf"], case["fault"], case["site"], case["path"]
    out = []
    form = site.split(" <- ")[-1] if " <- " in site else None
    if form in JINJA_TWINS:
        # the same body, valid as Jinja, has been validated earlier in this process
        try:
            expr_base.validate(JINJA_TWINS[form])
        except Exception:
            pass
    sub = {"wf": m, "name": case["name"], "fault": cls, "site": site, "path": path}
    try:
        rep = native_specs.WorkflowSpec(copy.deepcopy(m)).inspect()
    except Exception as ex:
        return {"violations": [{"property": "C15", "kind": "inspect_raised",
                                "sig": {"fault": cls, "exc": type(ex).__name__},
                                "detail": {"site": site, "exc": str(ex)}, "case": sub}]}
    entries = [e for k in rep for e in rep[k]]
    if not entries:
        out.append({"property": "C15", "kind": "fault_silently_accepted",
                    "sig": {"fault": cls, "site_kind": path.split(".")[-1].split("[")[0] if "." in path else path,
                            "form": site.split(" <- ")[-1] if " <- " in site else None},
                    "detail": {"site": site}, "case": sub})
    elif not any((e.get("spec_path") or "").startswith(path) for e in entries):
        out.append({"property": "C15", "kind": "fault_reported_elsewhere", "sig": {"fault": cls},
                    "detail": {"site": site, "expected_path": path,
                               "reported": [e.get("spec_path") for e in entries]}, "case": sub})
    return {"violations": out}


def check_c15_mutants(case):
    wf = case["wf"]
    out = []
    n = 0
    classes = {}
    spec = native_specs.WorkflowSpec(copy.deepcopy(wf))
    if spec.inspect():
        return {"skipped": True, "violations": []}
    for cls, site, path, m in single_fault_mutants(wf):
        n += 1
        classes[cls] = classes.get(cls, 0) + 1
        r = check_c15_one({"wf": m, "name": case["name"], "fault": cls, "site": site, "path": path})
        out.extend(r["violations"])
    return {"violations": out, "mutants": n, "classes": classes}


# --------------------------------------------------------------------------- C16
def strict_eq(a, b):
    if type(a) is not type(b):
        return False
    if isinstance(a, dict):
        return list(a.keys()) == list(b.keys()) and all(strict_eq(a[k], b[k]) for k in a) \
            if set(a.keys()) == set(b.keys()) else False
    if isinstance(a, list):
        return len(a) == len(b) and all(strict_eq(x, y) for x, y in zip(a, b))
    if isinstance(a, float):
        if math.isnan(a) and math.isnan(b):
            return True
        return a == b and math.copysign(1, a) == math.copysign(1, b)
    return a == b


def strict_eq_unordered(a, b):
    if type(a) is not type(b):
        return False
    if isinstance(a, dict):
        return set(a.keys()) == set(b.keys()) and all(strict_eq_unordered(a[k], b[k]) for k in a)
    if isinstance(a, list):
        return len(a) == len(b) and all(strict_eq_unordered(x, y) for x, y in zip(a, b))
    return strict_eq(a, b)


ATOMS = [0, -1, 1, 2 ** 63, 2 ** 64, 10 ** 30, -(2 ** 63) - 1, 1.5, -0.0, 1e308, 5e-324, 0.1 + 0.2,
         True, False, None, "", "1", "true", "null", "1.0", "%s", "{0}", "a=b", "x in y",
         "é中", "\U0001f600", "\t\n", " lead", "trail ", "'q'", '"dq"', "a\\b"]


def value_grammar(depth=2):
    vals = list(ATOMS)
    if depth >= 1:
        for a in ATOMS:
            vals.append([a])
            vals.append({"k": a})
        vals.append([])
        vals.append({})
        vals.append([1, "1", 1.0, True, None])
        vals.append({"a": 1, "b": "1", "c": 1.0, "d": True, "e": None})
    if depth >= 2:
        for a in (0, 2 ** 64, -0.0, True, None, "", "1", "\U0001f600"):
            vals.append([[a]])
            vals.append({"k": {"j": a}})
            vals.append([{"k": a}])
            vals.append({"k": [a]})
    return vals


REF_FORMS = {
    "yaql_ctx_name": "<% ctx({v}) %>",
    "yaql_ctx_attr": "<% ctx().{v} %>",
    "yaql_ctx_dq": '<% ctx("{v}") %>',
    "jinja_ctx_name": "{{{{ ctx('{v}') }}}}",
    "jinja_ctx_attr": "{{{{ ctx().{v} }}}}",
}


def pipeline_wf(form):
    ref = lambda v: REF_FORMS[form].format(v=v)
    res = "<% result() %>" if form.startswith("yaql") else "{{ result() }}"
    item = "<% item() %>" if form.startswith("yaql") else "{{ item() }}"
    return {
        "version": 1.0,
        "input": ["x"],
        "vars": [{"w": ref("x")}],
        "output": [{"z": ref("y")}, {"zi": ref("yi")}],
        "tasks": {
            "t1": {"action": "core.echo", "input": {"m": ref("x"), "mw": ref("w")},
                   "next": [{"when": "<% succeeded() %>", "publish": [{"y": res}], "do": "t2"}]},
            "t2": {"action": "core.echo", "input": {"m": ref("y")},
                   "next": [{"publish": [{"y2": ref("y")}], "do": "t3"}]},
            "t3": {"with": {"items": ref("lst")}, "action": "core.echo", "input": {"m": item},
                   "next": [{"publish": [{"yi": res}], "do": "t4"}]},
            "t4": {"action": "core.noop"},
        },
    }


def python_equal_other_type(v):
    """A JSON value that compares equal to v in Python but is a different JSON value (or None if there is none)."""
    if v is True:
        return 1
    if v is False:
        return 0
    if isinstance(v, int) and v in (0, 1):
        return bool(v)
    if isinstance(v, int) and abs(v) < 2 ** 53:
        return float(v)
    if isinstance(v, float) and v == int(v) and abs(v) < 2 ** 53 and v != 0:
        return int(v)
    if isinstance(v, list) and v:
        inner = [python_equal_other_type(x) for x in v]
        if all(x is not None for x in inner):
            return inner
    return None


def check_c16(case):
    """One value through every stage of the data path, for one reference form."""
    V = case["value"]
    form = case["form"]
    persist = case.get("persist", False)
    out = []

    def v(kind, stage, got):
        out.append({"property": "C16", "kind": kind,
                    "sig": {"stage": stage, "form": form, "vtype": type(V).__name__, "persist": persist},
                    "detail": {"value": repr(V), "got": repr(got)}, "case": case})

    wf = pipeline_wf(form)
    wf["input"] = ["x", {"lst": None}, {"xd": "declared-default"}, {"xn": 60}]
    wf["output"] = wf["output"] + [{"zd": REF_FORMS[form].format(v="xd")}, {"zn": REF_FORMS[form].format(v="xn")}]
    # a variable that already holds a value which is ==-equal in Python but of another JSON type is republished
    old = python_equal_other_type(V)
    wf["vars"] = wf["vars"] + [{"eqv": old}]
    res_expr = "<% result() %>" if form.startswith("yaql") else "{{ result() }}"
    wf["tasks"]["t1"]["next"][0]["publish"].append({"eqv": res_expr})
    spec = native_specs.WorkflowSpec(copy.deepcopy(wf))
    insp = spec.inspect()
    if insp:
        return {"violations": [{"property": "C16", "kind": "pipeline_rejected", "sig": {"form": form},
                                "detail": insp, "case": case}]}
    c = conducting.WorkflowConductor(spec, inputs={"x": copy.deepcopy(V), "lst": [copy.deepcopy(V)],
                                                   "xd": copy.deepcopy(V), "xn": copy.deepcopy(V)})

    def crash(c):
        if persist:
            data = json.loads(json.dumps(c.serialize()))
            return conducting.WorkflowConductor.deserialize(data)
        return c

    try:
        c.request_workflow_status(st.RUNNING)
        c = crash(c)
        if not strict_eq(c.get_workflow_input().get("x"), V):
            v("value_changed", "workflow_input", c.get_workflow_input().get("x"))
        ctx0 = c.get_workflow_initial_context()
        if not strict_eq(ctx0.get("x"), V):
            v("value_changed", "input->ctx", ctx0.get("x"))
        if not strict_eq(ctx0.get("w"), V):
            v("value_changed", "ctx->vars(%s)" % form, ctx0.get("w"))
        for nm in ("xd", "xn"):
            if not strict_eq(ctx0.get(nm), V):
                v("value_changed", "input(with declared default)->ctx", ctx0.get(nm))
        nt = c.get_next_tasks()
        a = nt[0]["actions"][0]["input"]
        if not strict_eq(a["m"], V):
            v("value_changed", "ctx->action_input", a["m"])
        c.update_task_state("t1", 0, events.ActionExecutionEvent(st.RUNNING))
        c = crash(c)
        c.update_task_state("t1", 0, events.ActionExecutionEvent(st.SUCCEEDED, result=copy.deepcopy(V)))
        c = crash(c)
        nt = c.get_next_tasks()
        if [t["id"] for t in nt] != ["t2"]:
            v("pipeline_broken", "after t1", [t["id"] for t in nt])
            return {"violations": out}
        if not strict_eq(nt[0]["ctx"].get("y"), V):
            v("value_changed", "result->publish->ctx", nt[0]["ctx"].get("y"))
        if not isinstance(V, dict) and not strict_eq(nt[0]["ctx"].get("eqv"), V):
            v("value_changed", "republish over an equal value of another type", nt[0]["ctx"].get("eqv"))
        if not strict_eq(nt[0]["actions"][0]["input"]["m"], V):
            v("value_changed", "published->action_input", nt[0]["actions"][0]["input"]["m"])
        c.update_task_state("t2", 0, events.ActionExecutionEvent(st.RUNNING))
        c.update_task_state("t2", 0, events.ActionExecutionEvent(st.SUCCEEDED, result=None))
        c = crash(c)
        nt = c.get_next_tasks()
        if [t["id"] for t in nt] != ["t3"]:
            v("pipeline_broken", "after t2", [t["id"] for t in nt])
            return {"violations": out}
        if not strict_eq(nt[0]["ctx"].get("y2"), V):
            v("value_changed", "ctx->publish->ctx", nt[0]["ctx"].get("y2"))
        acts = nt[0]["actions"]
        if len(acts) != 1 or not strict_eq(acts[0]["input"]["m"], V):
            v("value_changed", "item->action_input", acts and acts[0]["input"]["m"])
        c.update_task_state("t3", 0, events.TaskItemActionExecutionEvent(0, st.RUNNING))
        c.update_task_state("t3", 0, events.TaskItemActionExecutionEvent(
            0, st.SUCCEEDED, result=copy.deepcopy(V), accumulated_result=[copy.deepcopy(V)]))
        c = crash(c)
        nt = c.get_next_tasks()
        if [t["id"] for t in nt] != ["t4"]:
            v("pipeline_broken", "after t3", [t["id"] for t in nt])
            return {"violations": out}
        if not strict_eq(nt[0]["ctx"].get("yi"), [V]):
            v("value_changed", "item_results->publish", nt[0]["ctx"].get("yi"))
        c.update_task_state("t4", 0, events.ActionExecutionEvent(st.RUNNING))
        c.update_task_state("t4", 0, events.ActionExecutionEvent(st.SUCCEEDED))
        c = crash(c)
        c.render_workflow_output()
        c = crash(c)
        o = c.get_workflow_output() or {}
        if c.get_workflow_status() != st.SUCCEEDED:
            v("pipeline_failed", "end", c.errors)
        if not strict_eq(o.get("z"), V):
            v("value_changed", "ctx->output", o.get("z"))
        if not strict_eq(o.get("zi"), [V]):
            v("value_changed", "ctx->output(list)", o.get("zi"))
        if not strict_eq(o.get("zd"), V) or not strict_eq(o.get("zn"), V):
            v("value_changed", "input(with declared default)->output", [o.get("zd"), o.get("zn")])
        # internals never leak into published contexts or outputs
        for i, d in enumerate(c.workflow_state.contexts):
            if any(str(k).startswith("__") for k in d):
                v("internal_name_leaked", "contexts[%d]" % i, list(d))
        if any(str(k).startswith("__") for k in o):
            v("internal_name_leaked", "output", list(o))
    except Exception as ex:
        out.append({"property": "C16", "kind": "exception",
                    "sig": {"form": form, "vtype": type(V).__name__, "exc": type(ex).__name__, "persist": persist},
                    "detail": {"value": repr(V), "exc": str(ex)}, "case": case})
    return {"violations": out}


HIDDEN_FORMS = ["<% ctx(__state) %>", "<% ctx().__state %>", "<% ctx('__current_task') %>",
                '<% ctx("__current_item") %>', "{{ ctx('__state') }}", "{{ ctx().__current_task }}",
                "<% ctx().get(__state) %>", "<% ctx().keys() %>", "{{ ctx().keys()|list }}", "<% ctx() %>",
                "{{ ctx() }}"]


def check_c16_expr(case):
    """Expression level: typed result of a single expression, purity, hidden internals."""
    V = case["value"]
    out = []
    ctxv = {"x": copy.deepcopy(V), "d": {"n": copy.deepcopy(V)}, "__state": {"s": 1},
            "__current_task": {"id": "t", "route": 0, "result": copy.deepcopy(V)},
            "__current_item": copy.deepcopy(V)}
    forms = ["<% ctx(x) %>", "<% ctx().x %>", '<% ctx("x") %>', "<% ctx('x') %>", "{{ ctx('x') }}", "{{ ctx().x }}",
             "<% result() %>", "{{ result() }}", "<% item() %>", "{{ item() }}", "<% ctx(d).n %>", "{{ ctx('d').n }}"]
    for f in forms:
        before = copy.deepcopy(ctxv)
        try:
            got = expr_base.evaluate(f, ctxv)
        except Exception as ex:
            out.append({"property": "C16", "kind": "evaluate_raised",
                        "sig": {"form": f, "vtype": type(V).__name__, "exc": type(ex).__name__},
                        "detail": {"value": repr(V), "exc": str(ex)}, "case": case})
            continue
        if not strict_eq_unordered(got, V):
            out.append({"property": "C16", "kind": "value_changed",
                        "sig": {"stage": "evaluate", "form": f, "vtype": type(V).__name__},
                        "detail": {"value": repr(V), "got": repr(got)}, "case": case})
        if not strict_eq(before, ctxv):
            out.append({"property": "C16", "kind": "evaluation_mutated_context", "sig": {"form": f},
                        "detail": {"value": repr(V)}, "case": case})
    # a literal without delimiters is returned as is
    try:
        lit = expr_base.evaluate(copy.deepcopy(V), ctxv)
        if not strict_eq(lit, V):
            out.append({"property": "C16", "kind": "value_changed",
                        "sig": {"stage": "evaluate-literal", "form": "literal", "vtype": type(V).__name__},
                        "detail": {"value": repr(V), "got": repr(lit)}, "case": case})
    except Exception as ex:
        out.append({"property": "C16", "kind": "evaluate_raised",
                    "sig": {"form": "literal", "vtype": type(V).__name__, "exc": type(ex).__name__},
                    "detail": {"value": repr(V), "exc": str(ex)}, "case": case})
    if case.get("hidden"):
        for f in HIDDEN_FORMS:
            try:
                got = expr_base.evaluate(f, ctxv)
            except Exception:
                continue
            bad = False
            if isinstance(got, dict) and any(str(k).startswith("__") for k in got):
                bad = True
            if isinstance(got, list) and any(str(k).startswith("__") for k in got):
                bad = True
            if got == {"s": 1} or (isinstance(got, dict) and got.get("id") == "t"):
                bad = True
            if isinstance(got, str) and "__state" in got:
                bad = True
            if bad:
                out.append({"property": "C16", "kind": "internal_name_readable", "sig": {"form": f},
                            "detail": {"got": repr(got)}, "case": case})
    return {"violations": out}


# --------------------------------------------------------------------------- pool
def _run_case(arg):
    fn_name, case = arg
    try:
        if "." in fn_name:
            import importlib

            mod, f = fn_name.rsplit(".", 1)
            return getattr(importlib.import_module(mod), f)(case)
        return globals()[fn_name](case)
    except Exception:
        import traceback

        return {"harness_error": traceback.format_exc(), "case": case}


def run_cases(fn_name, cases, seed=0, nproc=None):
    nproc = nproc or int(os.environ.get("VERIF_PROCS", "16"))
    nproc = max(1, min(nproc, len(cases)))
    os.environ["PYTHONHASHSEED"] = str(seed % 4294967295)
    args = [(fn_name, c) for c in cases]
    if nproc == 1:
        return [_run_case(a) for a in args]
    ctx = mp.get_context("spawn")
    with ctx.Pool(nproc) as pool:
        return list(pool.imap_unordered(_run_case, args, chunksize=8))


# --------------------------------------------------------------------------- C20
def _observe(wf, schedule):
    """Conduct wf under a schedule (list of statuses consumed FIFO, default succeeded)."""
    obs = {"inspect": None, "graph": None, "offers": [], "contexts": None, "output": None, "status": None,
           "errors": None, "exc": None}
    try:
        spec = native_specs.WorkflowSpec(copy.deepcopy(wf))
        obs["inspect"] = spec.inspect()
        if obs["inspect"]:
            return obs
        c = conducting.WorkflowConductor(spec)
        obs["graph"] = c.graph.serialize()
        c.request_workflow_status(st.RUNNING)
        sched = list(schedule)
        infl = []
        for _ in range(50):
            for t in c.get_next_tasks():
                uctx = {k: v for k, v in t["ctx"].items() if not k.startswith("__")}
                obs["offers"].append({"id": t["id"], "route": t["route"], "actions": copy.deepcopy(t["actions"]),
                                      "ctx": uctx, "delay": t.get("delay"), "items_count": t.get("items_count")})
                if "items_count" in t:
                    if t["items_count"] == 0:
                        c.update_task_state(t["id"], t["route"], events.ActionExecutionEvent(st.RUNNING))
                        c.update_task_state(t["id"], t["route"], events.ActionExecutionEvent(st.SUCCEEDED, result=[]))
                    for a in t["actions"]:
                        c.update_task_state(t["id"], t["route"],
                                            events.TaskItemActionExecutionEvent(a["item_id"], st.RUNNING))
                        infl.append((t["id"], t["route"], a["item_id"], t["items_count"]))
                else:
                    c.update_task_state(t["id"], t["route"], events.ActionExecutionEvent(st.RUNNING))
                    infl.append((t["id"], t["route"], None, None))
            if not infl:
                break
            tid, r, item, n = infl.pop(0)
            stt = sched.pop(0) if sched else st.SUCCEEDED
            if item is None:
                c.update_task_state(tid, r, events.ActionExecutionEvent(stt, result="r-" + tid))
            else:
                acc = ["r%d" % i for i in range(n)]
                c.update_task_state(tid, r, events.TaskItemActionExecutionEvent(item, stt, result="r%d" % item,
                                                                               accumulated_result=acc))
        if c.get_workflow_status() in st.COMPLETED_STATUSES:
            c.render_workflow_output()
        obs["contexts"] = copy.deepcopy(c.workflow_state.contexts)
        obs["output"] = c.get_workflow_output()
        obs["status"] = c.get_workflow_status()
        obs["errors"] = copy.deepcopy(c.errors)
    except Exception as ex:
        obs["exc"] = "%s: %s" % (type(ex).__name__, ex)
    return obs


def check_c20(case):
    out = []
    for sched in ([], [st.FAILED], [st.SUCCEEDED, st.FAILED]):
        a = _observe(case["short"], sched)
        b = _observe(case["long"], sched)
        for k in ("exc", "inspect", "graph", "offers", "contexts", "output", "status", "errors"):
            if not strict_eq_unordered(a[k], b[k]) if k in ("offers", "contexts", "output") else a[k] != b[k]:
                out.append({"property": "C20", "kind": "shorthand_differs_from_long_form",
                            "sig": {"position": case["name"].split("-")[0], "aspect": k},
                            "detail": {"short": a[k], "long": b[k], "schedule": sched}, "case": case})
                break
        if out:
            break
    return {"violations": out}
