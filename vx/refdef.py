"""Independent reading of a workflow definition (the reference's view).

Nothing here imports orquesta: the definition is the plain dict that is also
handed to the engine, and expressions are understood only if they belong to
the closed vocabulary below (everything else is ``raw`` = not interpreted).
"""

import re

ENGINE_COMMANDS = ("continue", "fail", "noop", "retry")

_Y = r"^<%\s*(.*?)\s*%>$"
_J = r"^\{\{\s*(.*?)\s*\}\}$"


def _inner(s):
    if not isinstance(s, str):
        return None, None
    m = re.match(_Y, s.strip(), re.S)
    if m:
        return "yaql", m.group(1)
    m = re.match(_J, s.strip(), re.S)
    if m:
        return "jinja", m.group(1)
    return None, None


_VAR = r"(?:ctx\(\)\.(\w+)|ctx\((\w+)\)|ctx\('(\w+)'\)|ctx\(\"(\w+)\"\))"


def _var(m, base):
    for i in range(base, base + 4):
        if m.group(i):
            return m.group(i)
    return None


def parse_cond(s):
    """-> AST: None (always) | ["S"] ["F"] ["C"] | ["and", a, b] | ["res_eq", tok]
    | ["lt", var, k] | ["ge", var, k] | ["raw", text]"""
    if s is None:
        return None
    lang, body = _inner(s)
    if lang is None:
        return ["raw", s]
    return _parse_cond_body(body, s)


def _parse_cond_body(body, orig):
    body = body.strip()
    if body == "succeeded()":
        return ["S"]
    if body == "failed()":
        return ["F"]
    if body == "completed()":
        return ["C"]
    m = re.match(r"^(.*?)\s+and\s+(.*)$", body)
    if m:
        a = _parse_cond_body(m.group(1), orig)
        b = _parse_cond_body(m.group(2), orig)
        if a[0] == "raw" or b[0] == "raw":
            return ["raw", orig]
        return ["and", a, b]
    m = re.match(r"^result\(\)\s*==?\s*'([^']*)'$", body)
    if m:
        return ["res_eq", m.group(1)]
    m = re.match(r"^result\(\)\s*==?\s*(-?\d+)$", body)
    if m:
        return ["res_eq", int(m.group(1))]
    m = re.match(r"^" + _VAR + r"\s*<\s*(-?\d+)$", body)
    if m:
        return ["lt", _var(m, 1), int(m.group(5))]
    m = re.match(r"^" + _VAR + r"\s*>=\s*(-?\d+)$", body)
    if m:
        return ["ge", _var(m, 1), int(m.group(5))]
    return ["raw", orig]


def eval_cond(ast, status, result, ctx):
    """-> True / False / None (not interpretable)."""
    if ast is None:
        return True
    k = ast[0]
    if k == "S":
        return status == "succeeded"
    if k == "F":
        return status in ("failed", "timeout", "abandoned")
    if k == "C":
        return status in ("succeeded", "failed", "timeout", "abandoned", "canceled")
    if k == "and":
        a = eval_cond(ast[1], status, result, ctx)
        if a is False:
            return False
        b = eval_cond(ast[2], status, result, ctx)
        if a is None or b is None:
            return None if b is not False else False
        return a and b
    if k == "res_eq":
        if isinstance(ast[1], int):
            # YAQL/Jinja '=' between an int and a bool follows Python (0 == False); keep them apart
            # only where the engine can: compare type-strictly unless the result is a bool
            if isinstance(result, bool):
                return None
            return type(result) is int and result == ast[1]
        return result == ast[1]
    if k in ("lt", "ge"):
        if ctx is None or ast[1] not in ctx or not isinstance(ctx[ast[1]], int):
            return None
        return ctx[ast[1]] < ast[2] if k == "lt" else ctx[ast[1]] >= ast[2]
    return None


def parse_expr(v):
    """publish / output value -> ["lit", v] | ["res"] | ["ctx", var] | ["inc", var] | ["raw", v]"""
    if not isinstance(v, str):
        if _contains_expr(v):
            return ["raw", v]
        return ["lit", v]
    lang, body = _inner(v)
    if lang is None:
        if "<%" in v or "{{" in v or "{%" in v:
            return ["raw", v]
        return ["lit", v]
    if body == "result()":
        return ["res"]
    m = re.match(r"^" + _VAR + r"$", body)
    if m:
        return ["ctx", _var(m, 1)]
    m = re.match(r"^" + _VAR + r"\s*\+\s*1$", body)
    if m:
        return ["inc", _var(m, 1)]
    return ["raw", v]


def _contains_expr(v):
    if isinstance(v, str):
        return "<%" in v or "{{" in v or "{%" in v
    if isinstance(v, dict):
        return any(_contains_expr(k) or _contains_expr(x) for k, x in v.items())
    if isinstance(v, (list, tuple)):
        return any(_contains_expr(x) for x in v)
    return False


UNKNOWN = ["$unknown"]


def eval_expr(ast, result, ctx):
    k = ast[0]
    if k == "lit":
        return ast[1]
    if k == "raw" and isinstance(ast[1], dict):
        out = {}
        for kk, vv in ast[1].items():
            if not isinstance(kk, str) or _contains_expr(kk):
                return UNKNOWN
            val = eval_expr(parse_expr(vv), result, ctx)
            if val == UNKNOWN:
                return UNKNOWN
            out[kk] = val
        return out
    if k == "res":
        return result
    if k == "ctx":
        return ctx.get(ast[1], UNKNOWN) if ctx is not None else UNKNOWN
    if k == "inc":
        v = ctx.get(ast[1], UNKNOWN) if ctx is not None else UNKNOWN
        if isinstance(v, int) and not isinstance(v, bool):
            return v + 1
        return UNKNOWN
    return UNKNOWN


def norm_do(do):
    if not do:
        return ["continue"]
    if isinstance(do, str):
        names = [x.strip() for x in do.split(",")]
    else:
        names = list(do)
    # one edge per (task, transition, target): a target repeated in one `do` counts once
    out = []
    for n in names:
        if n not in out:
            out.append(n)
    return out


def norm_publish(pub):
    out = []
    if not pub:
        return out
    if isinstance(pub, str):
        return [["$inline", ["raw", pub]]]
    for item in pub:
        (k, v), = item.items()
        out.append([k, parse_expr(v)])
    return out


class RefDef(object):
    def __init__(self, wf):
        self.wf = wf
        self.tasks = {}
        self.order = list((wf.get("tasks") or {}).keys())
        for name in self.order:
            t = wf["tasks"][name] or {}
            nxt = []
            for tr in t.get("next") or []:
                nxt.append(
                    {
                        "when": parse_cond(tr.get("when")),
                        "when_src": tr.get("when"),
                        "publish": norm_publish(tr.get("publish")),
                        "do": norm_do(tr.get("do")),
                    }
                )
            w = t.get("with")
            if isinstance(w, str):
                w = {"items": w}
            self.tasks[name] = {
                "join": t.get("join"),
                "next": nxt,
                "retry": t.get("retry"),
                "with": w,
                "action": t.get("action"),
                "delay": t.get("delay"),
            }
        # inbound transition entries (src, tidx) per target, over all declared tasks
        self.inbound = {n: [] for n in self.order}
        for src in self.order:
            for tidx, tr in enumerate(self.tasks[src]["next"]):
                for tgt in tr["do"]:
                    if tgt in self.inbound:
                        self.inbound[tgt].append((src, tidx))
        self._succ = {
            n: sorted({tgt for tr in self.tasks[n]["next"] for tgt in tr["do"] if tgt in self.tasks})
            for n in self.order
        }
        self._cyc = {}

    # ---- graph facts
    def roots(self):
        return sorted(n for n in self.order if not self.inbound[n])

    def reachable(self):
        seen = set()
        stack = list(self.roots())
        while stack:
            n = stack.pop()
            if n in seen:
                continue
            seen.add(n)
            stack.extend(self._succ[n])
        return seen

    def in_cycle(self, name):
        if name not in self._cyc:
            seen = set()
            stack = list(self._succ.get(name, []))
            found = False
            while stack:
                n = stack.pop()
                if n == name:
                    found = True
                    break
                if n in seen:
                    continue
                seen.add(n)
                stack.extend(self._succ[n])
            self._cyc[name] = found
        return self._cyc[name]

    def has_cycle(self):
        return any(self.in_cycle(n) for n in self.order)

    def is_join(self, name):
        return name in self.tasks and self.tasks[name]["join"] is not None

    def is_split(self, name):
        return name in self.tasks and not self.is_join(name) and len(self.inbound[name]) > 1

    def edge_key(self, src, tidx, tgt):
        """Rank of this transition among src's transitions that name tgt."""
        k = 0
        for i, tr in enumerate(self.tasks[src]["next"]):
            if i == tidx:
                return k
            if tgt in tr["do"]:
                k += 1
        raise KeyError((src, tidx, tgt))

    def inbound_tasks(self, name):
        return sorted({s for s, _ in self.inbound[name]})

    def join_requirement(self, name):
        j = self.tasks[name]["join"]
        if j == "all":
            return len(self.inbound_tasks(name))
        return int(j)

    def retry_policy(self, name):
        """-> None | {"count":..., "when": cond-ast or "$default", "delay":...}"""
        t = self.tasks[name]
        pol = None
        if t["retry"]:
            r = t["retry"]
            pol = {
                "count": r.get("count"),
                "when": parse_cond(r["when"]) if r.get("when") else "$default",
                "delay": r.get("delay"),
            }
        for tr in t["next"]:
            if "retry" in tr["do"]:
                # the retry command becomes a policy: count 3, when = the transition's condition
                # or completed()
                pol = {
                    "count": 3,
                    "when": tr["when"] if tr["when"] is not None else ["C"],
                    "delay": None,
                }
        return pol
