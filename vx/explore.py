"""Breadth-first explicit-state search over provider moves on the real conductor."""

import collections
import hashlib
import json
import time

from vx import sim as simmod
from vx.sim import Sim, st

PAUSE_REQ = (st.PAUSING, st.PAUSED)
RESUME_REQ = (st.RUNNING, st.RESUMING)
CANCEL_REQ = (st.CANCELING, st.CANCELED)


class Config(object):
    """Bounds and alphabet of one exploration."""

    DEFAULTS = dict(
        lazy=True,  # dispatch is a separate move that may be skipped
        dev=None,  # deviation budget (None: every move is free => full interleaving)
        pause=0,  # number of pause requests per history
        resume=0,
        cancel=0,
        pause_spellings=list(PAUSE_REQ),
        resume_spellings=list(RESUME_REQ),
        cancel_spellings=list(CANCEL_REQ),
        resume_only_at_rest=True,  # protocol: resume is requested once the workflow reports paused
        crash=False,
        hold=0,
        interim=0,  # intermediate action reports (pausing / canceling) per history
        rerun=0,  # number of rerun requests per history
        rerun_mode="default",  # default | tasks | all | failed | failed-pairs
        rerun_outcomes=None,  # outcome menu after a rerun (None: same menu)
        rerun_with_inflight=False,  # allow a rerun request while actions of the failed run still report
        render=False,
        canceled_outcome=True,  # after a cancel request in-flight actions may report canceled
        extra_outcomes=(),  # e.g. timeout / abandoned
        horizon=60,
        max_states=200000,
        past_terminal=True,  # keep completing in-flight actions after a terminal status
        snap_graph=False,  # snapshot the composed graph with every state (C05)
    )

    def __init__(self, **kw):
        d = dict(self.DEFAULTS)
        for k in kw:
            if k not in d:
                raise KeyError(k)
        d.update(kw)
        self.__dict__.update(d)

    def to_json(self):
        return dict(self.__dict__)

    def initial_budget(self):
        b = {}
        for k in ("pause", "resume", "cancel", "hold", "rerun", "interim"):
            if getattr(self, k):
                b[k] = getattr(self, k)
        if self.dev is not None:
            b["dev"] = self.dev
        return b


def gen_moves(sim, cfg):
    """Enabled moves in canonical order, each with its deviation cost."""
    h = sim.h
    if h["broken"]:
        return []
    if not h["started"]:
        if cfg.crash and not h.get("crashed_before_start"):
            return [(["start"], 0, None), (["crash"], 1, None)]
        return [(["start"], 0, None)]
    if h["steps"] >= cfg.horizon:
        return []
    scn = sim.scn
    b = sim.budget
    status = sim.status
    moves = []
    need = h["need_dispatch"]
    if need:
        moves.append((["dispatch"], 0, None))
    terminal = status in simmod.TERMINAL
    allow_complete = cfg.lazy or not need
    if terminal and not cfg.past_terminal:
        allow_complete = False
    if allow_complete:
        first = True
        for idx, a in enumerate(h["inflight"]):
            menu = list(scn.menu(a[0]))
            if h["reruns"] and cfg.rerun_outcomes is not None:
                menu = list(cfg.rerun_outcomes)
            for x in cfg.extra_outcomes:
                menu.append(list(x))
            if h["cancel_req"] and cfg.canceled_outcome:
                menu.append([st.CANCELED, None])
            for (stt, r) in menu:
                cost = 0 if (first and not need) else 1
                first = False
                moves.append((["complete", idx, stt, r, list(a)], cost, None))
        if b.get("hold"):
            for idx, a in enumerate(h["inflight"]):
                moves.append((["hold", idx, list(a)], 1, "hold"))
        if b.get("interim") and not terminal:
            for idx, a in enumerate(h["inflight"]):
                done = h.get("interim") or []
                if h["cancel_req"] and list(a) + [st.CANCELING] not in done:
                    moves.append((["interim", idx, st.CANCELING, list(a)], 1, "interim"))
                elif h["pause_req"] and status == st.PAUSING and list(a) + [st.PAUSING] not in done:
                    moves.append((["interim", idx, st.PAUSING, list(a)], 1, "interim"))
        for idx, a in enumerate(h["held"]):
            for (stt, r) in scn.menu(a[0]):
                moves.append((["release", idx, stt, r, list(a)], 1, None))
    if not terminal:
        if b.get("pause") and status in (st.RUNNING, st.RESUMING):
            for s in cfg.pause_spellings:
                moves.append((["req", s], 1, "pause"))
        if b.get("resume") and (h["pause_req"] or h["held"] or h.get("pend_pause")) and status in (
                st.PAUSING, st.PAUSED):
            if not cfg.resume_only_at_rest or status == st.PAUSED:
                for s in cfg.resume_spellings:
                    moves.append((["req", s], 1, "resume"))
        if b.get("cancel") and status in (st.RUNNING, st.PAUSING, st.PAUSED, st.RESUMING):
            for s in cfg.cancel_spellings:
                moves.append((["req", s], 1, "cancel"))
    if cfg.crash:
        moves.append((["crash"], 1, None))
    if status in simmod.COMPLETED:
        if cfg.render and not h.get("rendered"):
            moves.append((["render"], 0, None))
        if b.get("rerun") and not h["held"] and (not h["inflight"] or cfg.rerun_with_inflight):
            for reqs in rerun_requests(sim, cfg):
                moves.append((["rerun", reqs], 1, "rerun"))
    return moves


def rerun_requests(sim, cfg):
    out = [[]]
    if cfg.rerun_mode == "default":
        return out
    ws = sim.c.workflow_state
    recs = []
    seen = set()
    for rec in ws.sequence:
        k = (rec["id"], rec["route"])
        if k in seen or rec["id"] in simmod.ENGINE_COMMANDS:
            continue
        if cfg.rerun_mode in ("failed", "failed-pairs"):
            # only executions whose latest record failed
            idx = ws.tasks.get("%s__r%s" % k)
            if idx is None or ws.sequence[idx].get("status") not in simmod.ABENDED:
                continue
        seen.add(k)
        recs.append(k)
    has_items = sim.scn.meta.get("items_tasks", [])
    singles = []
    for (t, r) in recs:
        singles.append([t, r, False])
        if t in has_items:
            singles.append([t, r, True])
    for s in singles:
        out.append([s])
    if cfg.rerun_mode in ("all", "failed-pairs"):
        for i in range(len(singles)):
            for j in range(i + 1, len(singles)):
                if singles[i][:2] != singles[j][:2]:
                    out.append([singles[i], singles[j]])
    return out


class Monitor(object):
    """Base class; ghost state lives in sim.ghost[self.name] (JSON-able)."""

    name = "monitor"
    prop = "C00"

    def __init__(self, scn, cfg):
        self.scn = scn
        self.cfg = cfg

    def init_ghost(self, sim):
        return None

    def on_step(self, pre, move, sim, res, post, ctx):
        """Return a list of violation dicts {kind, sig, detail}."""
        return []

    def on_leaf(self, sim, post, ctx):
        return []

    def on_state(self, sim, post, ctx):
        """Called once for every newly discovered state (ctx.fresh_pre() restores it)."""
        return []

    def on_scenario_end(self, ctx):
        return []


class StepCtx(object):
    """Facilities a monitor may use while judging one transition."""

    def __init__(self, scn, cfg, pre_snap, hist_fn=None):
        self.scn = scn
        self.cfg = cfg
        self.pre_snap = pre_snap
        self.hist_fn = hist_fn

    def history(self):
        return self.hist_fn() if self.hist_fn else None

    def fresh_pre(self):
        return Sim.restore(self.scn, self.pre_snap)


def terminal_observation(sim):
    c = sim.c
    ws = c.workflow_state
    execd = sorted("%s:%s" % (r["id"], r.get("status")) for r in ws.sequence)
    return json.dumps([ws.status, execd, c.get_workflow_output()], sort_keys=True, default=repr)


def explore(scn, cfg, monitor_classes, deadline=None, collect_samples=2):
    """Explore one scenario. Returns (stats, violations)."""
    t0 = time.time()
    Sim.SNAP_GRAPH = bool(cfg.snap_graph)
    monitors = [m(scn, cfg) for m in monitor_classes]
    sim0 = Sim(scn)
    sim0.budget = cfg.initial_budget()
    for m in monitors:
        g = m.init_ghost(sim0)
        if g is not None:
            sim0.ghost[m.name] = g
    # node table: id -> (parent, move)
    parents = [(-1, None)]
    depth = [0]
    key0 = sim0.key(with_budget=False)
    seen = {hashlib.blake2b(key0.encode(), digest_size=16).digest(): [dict(sim0.budget)]}
    frontier = collections.deque([(0, sim0.snapshot(), sim0.view())])
    stats = collections.Counter()
    stats["states"] = 1
    terminal_obs = set()
    violations = []
    vseen = set()
    leaves = 0
    samples = []
    complete = True
    outdeg = collections.Counter()
    has_on_state = any(type(m).on_state is not Monitor.on_state for m in monitors)

    def history(node):
        out = []
        while node > 0:
            p, mv = parents[node]
            out.append(mv)
            node = p
        out.reverse()
        return out

    while frontier:
        if deadline is not None and time.time() > deadline:
            complete = False
            stats["timed_out"] = 1
            break
        if stats["states"] >= cfg.max_states:
            complete = False
            stats["state_cap_hit"] = 1
            break
        node, snap, pre = frontier.popleft()
        sim = Sim.restore(scn, snap)
        moves = gen_moves(sim, cfg)
        cur_kd = hashlib.blake2b(sim.key(with_budget=False).encode(), digest_size=16).digest()
        if sim.h["steps"] >= cfg.horizon and not sim.h["broken"]:
            stats["horizon_hit"] += 1
            complete = False
        progressed = False
        truncated = False
        ctx = StepCtx(scn, cfg, snap, hist_fn=lambda n=node: history(n))
        first = True
        for (move, cost, btype) in moves:
            if not first:
                sim = Sim.restore(scn, snap)
            first = False
            b = sim.budget
            if btype is not None:
                if not b.get(btype):
                    continue
                b[btype] -= 1
            if "dev" in b and cost:
                if b["dev"] < cost:
                    truncated = True
                    continue
                b["dev"] -= cost
            res = sim.apply(move)
            if move[0] == "render":
                sim.h["rendered"] = True
            stats["transitions"] += 1
            stats["api_calls"] += res.calls
            post = sim.view()
            vs = []
            for m in monitors:
                for v in m.on_step(pre, move, sim, res, post, ctx) or []:
                    v["property"] = v.get("property", m.prop)
                    vs.append(v)
            if vs:
                hist = history(node) + [move]
                for v in vs:
                    sk = (v["property"], v["kind"], json.dumps(v.get("sig", {}), sort_keys=True))
                    stats["violating_transitions"] += 1
                    if sk in vseen:
                        continue
                    vseen.add(sk)
                    v["scenario"] = scn.to_json()
                    v["history"] = hist
                    v["cfg"] = cfg.to_json()
                    violations.append(v)
                stats["pruned_subtrees"] += 1
                continue
            kfull = sim.key(with_budget=False)
            kd = hashlib.blake2b(kfull.encode(), digest_size=16).digest()
            if kd != cur_kd:
                progressed = True
            bl = seen.get(kd)
            if bl is not None:
                # Already explored with a budget that dominates this one?
                dominated = False
                for ob in bl:
                    if all(ob.get(k, 0) >= v for k, v in sim.budget.items()):
                        dominated = True
                        break
                if dominated:
                    continue
                bl.append(dict(sim.budget))
                stats["reexplored_with_more_budget"] += 1
            else:
                seen[kd] = [dict(sim.budget)]
                stats["states"] += 1
            outdeg[node] += 1
            parents.append((node, move))
            depth.append(depth[node] + 1)
            nid = len(parents) - 1
            nsnap = sim.snapshot()
            if has_on_state:
                sctx = StepCtx(scn, cfg, nsnap, hist_fn=lambda n=nid: history(n))
                svs = []
                for m in monitors:
                    for v in m.on_state(sim, post, sctx) or []:
                        v["property"] = v.get("property", m.prop)
                        svs.append(v)
                if svs:
                    for v in svs:
                        sk = (v["property"], v["kind"], json.dumps(v.get("sig", {}), sort_keys=True))
                        stats["violating_transitions"] += 1
                        if sk in vseen:
                            continue
                        vseen.add(sk)
                        v["scenario"] = scn.to_json()
                        v["history"] = history(nid)
                        v["cfg"] = cfg.to_json()
                        v["on_state"] = True
                        violations.append(v)
                    stats["pruned_subtrees"] += 1
                    continue
            frontier.append((nid, nsnap, post))
        if truncated and not progressed:
            stats["truncated_by_deviation_bound"] += 1
        elif not progressed:
            # Leaf: every enabled move (if any) leaves the state unchanged (complete history).
            leaves += 1
            simL = Sim.restore(scn, snap)
            if simL.h["started"] and simL.c._workflow_state is not None:
                terminal_obs.add(terminal_observation(simL))
            for m in monitors:
                for v in m.on_leaf(simL, pre, ctx) or []:
                    v["property"] = v.get("property", m.prop)
                    sk = (v["property"], v["kind"], json.dumps(v.get("sig", {}), sort_keys=True))
                    if sk in vseen:
                        continue
                    vseen.add(sk)
                    v["scenario"] = scn.to_json()
                    v["history"] = history(node)
                    v["cfg"] = cfg.to_json()
                    violations.append(v)
            if len(samples) < collect_samples:
                samples.append(history(node))
    for m in monitors:
        for v in m.on_scenario_end(None) or []:
            v["property"] = v.get("property", m.prop)
            v["scenario"] = scn.to_json()
            v.setdefault("history", [])
            v["cfg"] = cfg.to_json()
            violations.append(v)
    stats["leaves"] = leaves
    stats["max_depth"] = max(depth) if depth else 0
    stats["terminal_observations"] = len(terminal_obs)
    stats["complete"] = 1 if complete else 0
    stats["wall_s"] = time.time() - t0
    extra = {}
    for m in monitors:
        if hasattr(m, "stats"):
            extra[m.name] = m.stats
    return dict(stats), violations, samples, extra


def run_path(scn, cfg, monitor_classes, moves, prior=None, monitors=None):
    """Plain replay (no snapshots for stepping) with the monitors attached.

    Used to confirm a violation found by the search before it is reported and
    by ``check --replay``. ``prior``: histories replayed first with the same monitor
    instances (properties judged on a set of executions, e.g. C08)."""
    Sim.SNAP_GRAPH = bool(cfg.snap_graph)
    if monitors is None:
        monitors = [m(scn, cfg) for m in monitor_classes]
    for ph in prior or []:
        run_path(scn, cfg, monitor_classes, ph, monitors=monitors)
    sim = Sim(scn)
    sim.budget = {}
    for m in monitors:
        g = m.init_ghost(sim)
        if g is not None:
            sim.ghost[m.name] = g
    out = []
    pre = sim.view()
    for i, move in enumerate(moves):
        snap = sim.snapshot()
        ctx = StepCtx(scn, cfg, snap, hist_fn=lambda k=i: list(moves[:k]))
        res = sim.apply(move)
        if move[0] == "render":
            sim.h["rendered"] = True
        post = sim.view()
        stepv = []
        for m in monitors:
            for v in m.on_step(pre, move, sim, res, post, ctx) or []:
                v["property"] = v.get("property", m.prop)
                v["at"] = i
                stepv.append(v)
        out.extend(stepv)
        if not stepv:
            sctx = StepCtx(scn, cfg, sim.snapshot(), hist_fn=lambda k=i: list(moves[: k + 1]))
            for m in monitors:
                for v in m.on_state(sim, post, sctx) or []:
                    v["property"] = v.get("property", m.prop)
                    v["at"] = i
                    out.append(v)
        pre = post
    snap = sim.snapshot()
    ctx = StepCtx(scn, cfg, snap, hist_fn=lambda: list(moves))
    for m in monitors:
        for v in m.on_leaf(sim, pre, ctx) or []:
            v["property"] = v.get("property", m.prop)
            v["at"] = len(moves)
            v["leaf"] = True
            out.append(v)
    return sim, out
