"""Provider simulator: closes the conductor with an explicit environment.

A ``Sim`` owns one real ``WorkflowConductor`` and the provider-side state
(in-flight actions, accumulated with-items results, outstanding requests).
Every environment decision is a *move* (a small JSON list); ``apply`` turns a
move into the public API calls a provider would make.
"""

import copy
import json
import pickle

import vx  # noqa: F401  (sets sys.path for VERIF_REPO)

from orquesta import conducting
from orquesta import events
from orquesta import exceptions as orq_exc
from orquesta import requests as orq_requests
from orquesta import statuses as st
from orquesta.specs import native as native_specs

ST_RUNNING = st.RUNNING
COMPLETED = set(st.COMPLETED_STATUSES)
ABENDED = set(st.ABENDED_STATUSES)
RESTING = {st.SUCCEEDED, st.FAILED, st.CANCELED, st.PAUSED}
TERMINAL = {st.SUCCEEDED, st.FAILED, st.CANCELED}

ALL_REQUEST_STATUSES = list(st.ALL_STATUSES)

ENGINE_COMMANDS = ("continue", "fail", "noop", "retry")


class HarnessError(Exception):
    """The harness itself misbehaved (never reported as a property violation)."""


class Scenario(object):
    """One closed system: a definition, its inputs and the outcome menu."""

    def __init__(self, name, wf, inputs=None, outcomes=None, family="", adef=None, meta=None):
        self.name = name
        self.wf = wf
        self.inputs = inputs or {}
        # task -> list of [status, result]; "*" is the default menu.
        self.outcomes = outcomes or {"*": [[st.SUCCEEDED, None], [st.FAILED, None]]}
        self.family = family
        self.adef = adef
        self.meta = meta or {}
        self._spec = None
        self._graph = None
        self._inspection = None
        self._partial_joins = None

    def to_json(self):
        return {
            "name": self.name,
            "family": self.family,
            "wf": self.wf,
            "inputs": self.inputs,
            "outcomes": self.outcomes,
            "adef": self.adef,
            "meta": self.meta,
        }

    @classmethod
    def from_json(cls, d):
        return cls(
            d["name"],
            d["wf"],
            inputs=d.get("inputs"),
            outcomes=d.get("outcomes"),
            family=d.get("family", ""),
            adef=d.get("adef"),
            meta=d.get("meta"),
        )

    @property
    def spec(self):
        if self._spec is None:
            self._spec = native_specs.WorkflowSpec(copy.deepcopy(self.wf))
        return self._spec

    @property
    def inspection(self):
        if self._inspection is None:
            self._inspection = self.spec.inspect()
        return self._inspection

    @property
    def graph(self):
        if self._graph is None:
            c = conducting.WorkflowConductor(self.spec, inputs=copy.deepcopy(self.inputs))
            self._graph = c.graph
        return self._graph

    @property
    def partial_joins(self):
        """Tasks declared join: N with N smaller than their number of inbound tasks, outside cycles
        (read from the definition only). Used to recognise known finding F01 in signatures."""
        if self._partial_joins is None:
            from vx import refdef

            d = refdef.RefDef(self.wf)
            self._partial_joins = {
                t for t in d.order
                if d.is_join(t) and d.tasks[t]["join"] != "all"
                and d.join_requirement(t) < len(d.inbound_tasks(t)) and not d.in_cycle(t)
            }
        return self._partial_joins

    def menu(self, task_id):
        return self.outcomes.get(task_id, self.outcomes.get("*", [[st.SUCCEEDED, None]]))


def _canon(obj, memo, out):
    """Canonical text of a JSON-like structure that keeps container aliasing.

    Containers met a second time are written as back references; strings and
    numbers are written by value (object identity of atoms is not observable
    by the code under test)."""
    t = type(obj)
    if t is dict:
        i = id(obj)
        if i in memo:
            out.append("@%d" % memo[i])
            return
        memo[i] = len(memo)
        out.append("{")
        for k, v in obj.items():
            out.append(repr(k))
            out.append(":")
            _canon(v, memo, out)
            out.append(",")
        out.append("}")
    elif t is list or t is tuple:
        i = id(obj)
        if i in memo:
            out.append("@%d" % memo[i])
            return
        memo[i] = len(memo)
        out.append("[")
        for v in obj:
            _canon(v, memo, out)
            out.append(",")
        out.append("]")
    else:
        out.append(repr(obj))


def _public(d):
    """Ghost entries whose name starts with "_" are payload (e.g. a twin's snapshot) that is
    fully determined by a sibling key entry; they are not part of the state identity."""
    if isinstance(d, dict):
        return {k: _public(v) for k, v in d.items() if not (isinstance(k, str) and k.startswith("_"))}
    return d


class Res(object):
    """What one move returned / raised."""

    __slots__ = ("ret", "exc", "exc_type", "offers", "calls", "raw_offers", "pure_ok", "extra")

    def __init__(self):
        self.ret = None
        self.exc = None
        self.exc_type = None
        self.offers = None
        self.raw_offers = None
        self.calls = 0
        self.pure_ok = True
        self.extra = {}


def user_ctx(ctx):
    return {k: v for k, v in ctx.items() if not k.startswith("__")}


def summarize_offer(task):
    """The provider-visible part of one entry of get_next_tasks()."""
    o = {
        "id": task["id"],
        "route": task["route"],
        "actions": copy.deepcopy(task.get("actions", [])),
        "ctx": user_ctx(task.get("ctx", {})),
    }
    if "delay" in task:
        o["delay"] = task["delay"]
    if "items_count" in task:
        o["items_count"] = task["items_count"]
        o["concurrency"] = task.get("concurrency")
    return o


class Sim(object):
    # When True the composed graph is part of every snapshot (and of the state identity), so that
    # in-memory sharing between execution records and graph nodes survives snapshots (C05).
    SNAP_GRAPH = False

    def __init__(self, scn):
        self.scn = scn
        self.c = conducting.WorkflowConductor(scn.spec, inputs=copy.deepcopy(scn.inputs))
        self.c._graph = pickle.loads(pickle.dumps(scn.graph)) if Sim.SNAP_GRAPH else scn.graph
        self.h = {
            "started": False,
            "inflight": [],  # [task, route, item] in launch order
            "held": [],  # actions reported pending at the provider
            "acc": {},  # "task__rN" -> accumulated item results
            "nexec": {},  # task -> completions issued (unique result tokens)
            "need_dispatch": False,
            "pause_req": False,  # a pause request is outstanding (not yet resumed)
            "cancel_req": False,
            "reruns": 0,
            "pj": {},  # offers per partial join "task__rN" (known finding F01 recognition)
            "rejoin": False,  # a partial join was offered again without a rerun in between
            "dup": [],  # tasks acked while an earlier execution of the same (task, route) was in flight
            "broken": False,  # an exception escaped mid-protocol; do not continue
            "steps": 0,
        }
        self.budget = {}
        self.ghost = {}

    # ------------------------------------------------------------------ state
    def _parts(self):
        c = self.c
        ws = c._workflow_state
        if ws is None:
            return None
        return (
            ws.contexts,
            ws.routes,
            ws.sequence,
            ws.staged,
            ws.status,
            ws.tasks,
            ws.reruns,
            c._errors,
            c._log,
            c._outputs,
        )

    # attributes of the conductor that are never part of a snapshot (immutable / unpicklable helpers)
    _SKIP_ATTRS = ("spec", "catalog", "spec_module", "composer")

    def snapshot(self):
        """Pickle of everything the live conductor holds in memory (also attributes this harness does not know
        about), so that a live lineage really behaves like a never-persisted conductor. The composed graph is
        shared between snapshots unless SNAP_GRAPH is set."""
        c = self.c
        ws = c._workflow_state
        attrs = {k: v for k, v in c.__dict__.items() if k not in self._SKIP_ATTRS}
        if not Sim.SNAP_GRAPH:
            attrs.pop("_graph", None)
        back = None
        if ws is not None:
            back = ws.conductor
            ws.conductor = None  # back reference is re-established on restore
        try:
            return pickle.dumps((attrs, self.h, self.budget, self.ghost), protocol=4)
        finally:
            if ws is not None:
                ws.conductor = back

    @classmethod
    def restore(cls, scn, snap):
        attrs, h, budget, ghost = pickle.loads(snap)
        sim = cls.__new__(cls)
        sim.scn = scn
        sim.h = h
        sim.budget = budget
        sim.ghost = ghost
        c = conducting.WorkflowConductor(scn.spec, inputs=copy.deepcopy(scn.inputs))
        c.__dict__.update(attrs)
        if "_graph" not in attrs:
            c._graph = scn.graph
        if c._workflow_state is not None:
            c._workflow_state.conductor = c
        sim.c = c
        return sim

    def key(self, with_budget=True):
        out = []
        memo = {}
        _canon(self._parts(), memo, out)
        hh = dict(self.h)
        hh.pop("steps", None)
        out.append(json.dumps(hh, sort_keys=True, default=repr))
        out.append(json.dumps(_public(self.ghost), sort_keys=True, default=repr))
        if Sim.SNAP_GRAPH and self.c._graph is not None:
            out.append(json.dumps(self.c._graph.serialize(), sort_keys=True, default=repr))
        if with_budget:
            out.append(json.dumps(self.budget, sort_keys=True))
        return "".join(out)

    @property
    def status(self):
        if self.c._workflow_state is None:
            return st.UNSET
        return self.c._workflow_state.status

    def view(self):
        """Plain-data copy of what an observer of the persisted form sees."""
        c = self.c
        if c._workflow_state is None:
            return {"state": None, "errors": [], "output": None, "status": st.UNSET, "h": copy.deepcopy(self.h)}
        return {
            "state": c.workflow_state.serialize(),
            "errors": copy.deepcopy(c.errors),
            "log": copy.deepcopy(c.log),
            "output": c.get_workflow_output(),
            "status": c.workflow_state.status,
            "h": copy.deepcopy(self.h),
        }

    # ------------------------------------------------------------------ moves
    def result_value(self, task_id, spec):
        if spec == "$uniq":
            n = self.h["nexec"].get(task_id, 0)
            return "%s#%d" % (task_id, n)
        return copy.deepcopy(spec)

    def apply(self, move, check_pure=True):
        """Execute one move. Exceptions of the conductor are captured in Res."""
        op = move[0]
        res = Res()
        self.h["steps"] += 1
        try:
            if op == "start":
                self._start(res)
            elif op == "dispatch":
                self._dispatch(res, check_pure)
            elif op == "complete":
                self._complete(res, move)
            elif op == "hold":
                self._hold(res, move)
            elif op == "interim":
                self._interim(res, move)
            elif op == "release":
                self._release(res, move)
            elif op == "req":
                self._request(res, move[1])
            elif op == "crash":
                self._crash(res)
            elif op == "rerun":
                self._rerun(res, move[1])
            elif op == "render":
                self._render(res)
            else:
                raise HarnessError("unknown move %r" % (move,))
            if self.h["held"] and self.status in (st.PAUSING, st.PAUSED):
                self.h["pend_pause"] = True  # (re-)paused because an action is pending at the provider
        except HarnessError:
            raise
        except Exception as e:  # conductor raised
            res.exc = "%s: %s" % (type(e).__name__, e)
            res.exc_type = type(e).__name__
            res.extra["exc_obj"] = e
        return res

    def _start(self, res):
        if self.h["started"]:
            raise HarnessError("start twice")
        self.h["started"] = True
        self.h["need_dispatch"] = True
        res.calls += 1
        self.c.request_workflow_status(st.RUNNING)

    def _dispatch(self, res, check_pure):
        c = self.c
        res.calls += 1
        tasks = c.get_next_tasks()
        offers = [summarize_offer(t) for t in tasks]
        res.extra["status_at_answer"] = c.get_workflow_status()  # before any offer is acknowledged
        if check_pure:
            # C19(c): a second query without an intervening event.
            s1 = c.serialize()
            tasks2 = c.get_next_tasks()
            offers2 = [summarize_offer(t) for t in tasks2]
            s2 = c.serialize()
            res.calls += 1
            if offers2 != offers or s1 != s2:
                res.pure_ok = False
                res.extra["pure"] = {
                    "offers1": offers,
                    "offers2": offers2,
                    "state_equal": s1 == s2,
                }
        res.offers = offers
        res.raw_offers = tasks
        self.h["need_dispatch"] = bool(offers)
        acks = []
        for t in offers:
            tid, route = t["id"], t["route"]
            if tid in self.scn.partial_joins:
                k = "%s__r%s" % (tid, route)
                first_items_offer = "items_count" not in t or not any(
                    a[0] == tid and a[1] == route for a in self.h["inflight"])
                if first_items_offer:
                    self.h["pj"][k] = self.h["pj"].get(k, 0) + 1
                    if self.h["pj"][k] > 1:
                        self.h["rejoin"] = True
            if "items_count" in t:
                tk = "%s__r%s" % (tid, route)
                n = t["items_count"]
                if n == 0:
                    acks.append([tid, route, None, "running"])
                    res.calls += 1
                    try:
                        c.update_task_state(tid, route, events.ActionExecutionEvent(st.RUNNING))
                        acks.append([tid, route, None, "succeeded"])
                        res.calls += 1
                        c.update_task_state(
                            tid, route, events.ActionExecutionEvent(st.SUCCEEDED, result=[])
                        )
                    except Exception:
                        self.h["broken"] = True
                        res.extra["acks"] = acks
                        raise
                    continue
                if tk not in self.h["acc"] or len(self.h["acc"][tk]) != n:
                    self.h["acc"][tk] = [None] * n
                for a in t["actions"]:
                    acks.append([tid, route, a["item_id"], "running"])
                    res.calls += 1
                    try:
                        c.update_task_state(
                            tid, route, events.TaskItemActionExecutionEvent(a["item_id"], st.RUNNING)
                        )
                    except Exception:
                        self.h["broken"] = True
                        res.extra["acks"] = acks
                        raise
                    self.h["inflight"].append([tid, route, a["item_id"]])
            else:
                acks.append([tid, route, None, "running"])
                res.calls += 1
                try:
                    c.update_task_state(tid, route, events.ActionExecutionEvent(st.RUNNING))
                except Exception:
                    self.h["broken"] = True
                    res.extra["acks"] = acks
                    raise
                if [tid, route, None] in self.h["inflight"] and tid not in self.h["dup"]:
                    self.h["dup"] = sorted(self.h["dup"] + [tid])
                self.h["inflight"].append([tid, route, None])
        res.extra["acks"] = acks
        res.ret = offers

    def _event_for(self, a, status, result):
        tid, route, item = a
        if item is None:
            return events.ActionExecutionEvent(status, result=result)
        tk = "%s__r%s" % (tid, route)
        acc = self.h["acc"].setdefault(tk, [])
        while len(acc) <= item:
            acc.append(None)
        if status in COMPLETED:
            acc[item] = result
        return events.TaskItemActionExecutionEvent(
            item, status, result=result, accumulated_result=copy.deepcopy(acc)
        )

    def _complete(self, res, move):
        idx, status, rspec = move[1], move[2], move[3]
        infl = self.h["inflight"]
        if idx >= len(infl):
            raise HarnessError("complete: no in-flight action #%d" % idx)
        a = infl[idx]
        if len(move) > 4 and move[4] is not None and list(move[4]) != list(a):
            raise HarnessError("replay divergence: in-flight #%d is %r, history says %r" % (idx, a, move[4]))
        result = self.result_value(a[0], rspec)
        ev = self._event_for(a, status, result)
        del infl[idx]
        if self.h.get("interim"):
            self.h["interim"] = [x for x in self.h["interim"] if x[:3] != list(a)]
        self.h["nexec"][a[0]] = self.h["nexec"].get(a[0], 0) + 1
        self.h["need_dispatch"] = True
        if self.h.get("rendered"):
            self.h["rendered"] = False  # the provider may render again after further reports
        res.extra["action"] = list(a)
        res.extra["status"] = status
        res.extra["result"] = result
        res.calls += 1
        res.ret = self.c.update_task_state(a[0], a[1], ev)
        res.ret = None

    def _interim(self, res, move):
        """An in-flight action reports an intermediate status (pausing / canceling); it stays in flight."""
        idx, status = move[1], move[2]
        infl = self.h["inflight"]
        if idx >= len(infl):
            raise HarnessError("interim: no in-flight action #%d" % idx)
        a = infl[idx]
        if len(move) > 3 and move[3] is not None and list(move[3]) != list(a):
            raise HarnessError("replay divergence: in-flight #%d is %r, history says %r" % (idx, a, move[3]))
        ev = self._event_for(a, status, None)
        self.h["need_dispatch"] = True
        self.h.setdefault("interim", [])
        if list(a) + [status] not in self.h["interim"]:
            self.h["interim"] = sorted(self.h["interim"] + [list(a) + [status]], key=repr)
        res.extra["action"] = list(a)
        res.extra["status"] = status
        res.calls += 1
        self.c.update_task_state(a[0], a[1], ev)

    def _hold(self, res, move):
        idx = move[1]
        infl = self.h["inflight"]
        if idx >= len(infl):
            raise HarnessError("hold: no in-flight action #%d" % idx)
        a = infl[idx]
        ev = self._event_for(a, st.PENDING, None)
        del infl[idx]
        if a[2] is not None:
            self.h["item_went_pending"] = True  # feature for known finding F27 (classification only)
        self.h["held"].append(a)
        self.h["pend_pause"] = True  # a pending action pauses the workflow; the provider resumes it later
        self.h["need_dispatch"] = True
        res.extra["action"] = list(a)
        res.calls += 1
        self.c.update_task_state(a[0], a[1], ev)

    def _release(self, res, move):
        idx, status, rspec = move[1], move[2], move[3]
        held = self.h["held"]
        if idx >= len(held):
            raise HarnessError("release: no held action #%d" % idx)
        a = held[idx]
        result = self.result_value(a[0], rspec)
        ev = self._event_for(a, status, result)
        del held[idx]
        self.h["nexec"][a[0]] = self.h["nexec"].get(a[0], 0) + 1
        self.h["need_dispatch"] = True
        res.extra["action"] = list(a)
        res.extra["status"] = status
        res.extra["result"] = result
        res.calls += 1
        self.c.update_task_state(a[0], a[1], ev)

    def _request(self, res, status):
        res.calls += 1
        before = self.status
        self.h["need_dispatch"] = True
        self.c.request_workflow_status(status)
        after = self.status
        # Book-keeping of accepted requests (no exception was raised).
        if status in (st.PAUSING, st.PAUSED) and after in (st.PAUSING, st.PAUSED):
            self.h["pause_req"] = True
        if status in (st.RUNNING, st.RESUMING) and before in (st.PAUSING, st.PAUSED):
            self.h["pause_req"] = False
            self.h["pend_pause"] = False
            if before == st.PAUSING and (any(a[2] is not None for a in self.h["inflight"]) or any(
                    x[3] == st.PAUSING for x in (self.h.get("interim") or []))):
                # feature for known finding F11 (classification only): the resume request arrived while
                # a with-items task had items in flight or an action had already reported pausing
                self.h["resumed_while_pausing_items"] = True
        if status in (st.CANCELING, st.CANCELED) and after in (st.CANCELING, st.CANCELED):
            self.h["cancel_req"] = True
            self.h["pause_req"] = False
            if after == st.CANCELED and before != st.CANCELED:
                # the request itself completed the workflow (nothing was in flight): feature for finding F25
                self.h["canceled_by_request_at_rest"] = True
        res.extra["before"] = before
        res.extra["after"] = after

    def _crash(self, res):
        res.calls += 2
        if not self.h["started"]:
            self.h["crashed_before_start"] = True
        data = self.c.serialize()
        self.c = conducting.WorkflowConductor.deserialize(data)

    def _rerun(self, res, reqs):
        res.calls += 1
        task_requests = [
            orq_requests.TaskRerunRequest.new(r[0], route=r[1], reset_items=bool(r[2])) for r in reqs
        ]
        # features of the request, used only to classify findings (never by an oracle)
        seq = self.c.workflow_state.sequence
        info = {
            "default": not reqs,
            "failed_terminal_task": any(
                r.get("term") and r.get("status") in ABENDED and r["id"] not in ENGINE_COMMANDS for r in seq),
            "fail_command_terminal": any(r.get("term") and r["id"] == "fail" for r in seq),
            "workflow_status": self.status,
        }
        self.c.request_workflow_rerun(task_requests=task_requests or None)
        self.h["rerun_info"] = info
        self.h["reruns"] += 1
        self.h["pj"] = {}
        self.h["need_dispatch"] = True
        self.h["pause_req"] = False
        self.h["cancel_req"] = False
        if reqs:
            for r in reqs:
                if r[2]:
                    self.h["acc"].pop("%s__r%s" % (r[0], r[1]), None)

    def _render(self, res):
        res.calls += 1
        self.c.render_workflow_output()
        res.ret = self.c.get_workflow_output()


def replay(scn, moves, check_pure=False):
    """Plain replay of a move list on a fresh conductor (no snapshots)."""
    sim = Sim(scn)
    results = []
    for m in moves:
        results.append(sim.apply(m, check_pure=check_pure))
    return sim, results


__all__ = [
    "Scenario",
    "Sim",
    "Res",
    "HarnessError",
    "replay",
    "summarize_offer",
    "user_ctx",
    "orq_exc",
]
