"""C19: determinism across hash seeds (separate processes) and across set-iteration orders
(shim that makes the order of every iterated set a choice point)."""

import copy
import hashlib
import itertools
import json
import os
import subprocess
import sys

import vx  # noqa: F401


# --------------------------------------------------------------------------- artefacts
def artefacts(wf, inputs=None, mode="mixed"):
    """inspect(), composed graph, and a canonical conducted history (every offer + persisted state)."""
    from orquesta import conducting
    from orquesta import events
    from orquesta import statuses as st
    from orquesta.specs import native as native_specs

    out = {}
    spec = native_specs.WorkflowSpec(copy.deepcopy(wf))
    out["inspect"] = spec.inspect()
    if out["inspect"]:
        return out
    c = conducting.WorkflowConductor(spec, inputs=copy.deepcopy(inputs or {}))
    out["graph"] = c.graph.serialize()
    steps = []
    try:
        c.request_workflow_status(st.RUNNING)
        infl = []
        k = 0
        for _ in range(80):
            tasks = c.get_next_tasks()
            steps.append(["offers", [[t["id"], t["route"], t["actions"], t.get("delay"),
                                      {a: b for a, b in t["ctx"].items() if not a.startswith("__")}]
                                     for t in tasks]])
            for t in tasks:
                if "items_count" in t:
                    if t["items_count"] == 0:
                        c.update_task_state(t["id"], t["route"], events.ActionExecutionEvent(st.RUNNING))
                        c.update_task_state(t["id"], t["route"], events.ActionExecutionEvent(st.SUCCEEDED, result=[]))
                    for a in t["actions"]:
                        c.update_task_state(t["id"], t["route"],
                                            events.TaskItemActionExecutionEvent(a["item_id"], st.RUNNING))
                        infl.append((t["id"], t["route"], a["item_id"], t["items_count"]))
                else:
                    c.update_task_state(t["id"], t["route"], events.ActionExecutionEvent(st.RUNNING))
                    infl.append((t["id"], t["route"], None, None))
            steps.append(["state", c.serialize()["state"]])
            if not infl:
                break
            # canonical schedule: newest first on even steps, oldest first on odd steps; every 5th fails
            tid, r, item, n = infl.pop(-1 if k % 2 == 0 else 0)
            k += 1
            stt = st.FAILED if (k % 5 == 0 or mode == "all_fail") else st.SUCCEEDED
            if item is None:
                c.update_task_state(tid, r, events.ActionExecutionEvent(stt, result="r-%s" % tid))
            else:
                c.update_task_state(tid, r, events.TaskItemActionExecutionEvent(
                    item, stt, result="r%d" % item, accumulated_result=["r%d" % i for i in range(n)]))
        if c.get_workflow_status() in st.COMPLETED_STATUSES:
            c.render_workflow_output()
        steps.append(["final", c.serialize()])
        # rerun every failed execution with explicit requests (order of the request list is fixed)
        if c.get_workflow_status() == st.FAILED:
            from orquesta import requests as orq_requests

            failed = sorted({(r["id"], r["route"]) for r in c.workflow_state.sequence
                             if r.get("status") == st.FAILED and r["id"] not in ("fail", "noop", "continue")})
            if failed:
                c.request_workflow_rerun(task_requests=[orq_requests.TaskRerunRequest.new(t, route=r)
                                                        for t, r in failed])
                steps.append(["rerun", c.serialize()["state"]])
                steps.append(["offers-after-rerun", [[t["id"], t["route"]] for t in c.get_next_tasks()]])
    except Exception as e:
        steps.append(["exception", "%s: %s" % (type(e).__name__, e)])
    out["conduct"] = steps
    return out


def digest(x):
    return hashlib.blake2b(json.dumps(x, default=repr).encode(), digest_size=12).hexdigest()


def artefact_digests(wf, inputs=None):
    a = artefacts(wf, inputs)
    out = {k: digest(v) for k, v in a.items()}
    if "conduct" in a:
        out["conduct_all_fail"] = digest(artefacts(wf, inputs, mode="all_fail").get("conduct"))
    return out


# --------------------------------------------------------------------------- (a) separate processes
def seed_run_main():
    """python -m vx.c19 <scenario-json-file>  (PYTHONHASHSEED comes from the environment)"""
    with open(sys.argv[1]) as f:
        scns = json.load(f)
    out = {}
    for s in scns:
        out[s["name"]] = artefact_digests(s["wf"], s.get("inputs"))
    json.dump(out, sys.stdout)


def run_seeds(scns, seeds, workdir):
    path = os.path.join(workdir, "c19-scenarios.json")
    with open(path, "w") as f:
        json.dump(scns, f)
    procs = []
    for sd in seeds:
        env = dict(os.environ)
        env["PYTHONHASHSEED"] = str(sd)
        env["PYTHONPATH"] = os.path.dirname(os.path.dirname(os.path.abspath(__file__)))
        procs.append((sd, subprocess.Popen([sys.executable, "-m", "vx.c19", path], stdout=subprocess.PIPE,
                                           stderr=subprocess.PIPE, env=env)))
    results = {}
    for sd, p in procs:
        o, e = p.communicate()
        if p.returncode != 0:
            raise RuntimeError("seed run %s failed: %s" % (sd, e.decode()[-2000:]))
        results[sd] = json.loads(o.decode())
    os.remove(path)
    return results


# --------------------------------------------------------------------------- (b) set-order shim
class Ctrl(object):
    target = None  # iteration index whose order deviates
    perm = None  # function list -> list
    n = 0
    log = None  # (size, site) per iteration

    @classmethod
    def reset(cls, target=None, perm=None):
        cls.target = target
        cls.perm = perm
        cls.n = 0
        cls.log = []

    @classmethod
    def order(cls, items):
        i = cls.n
        cls.n += 1
        if cls.log is not None:
            f = sys._getframe(2)
            cls.log.append((len(items), "%s:%d" % (f.f_code.co_filename.split("/orquesta/")[-1], f.f_lineno)))
        if cls.target is not None and cls.target == i and len(items) >= 2:
            return cls.perm(items)
        return items


class OSet(set):
    """A set whose iteration order is canonical (sorted by repr) unless the controller deviates."""

    def __iter__(self):
        items = sorted(set.__iter__(self), key=repr)
        return iter(Ctrl.order(items))

    def __or__(self, o):
        return OSet(set.__or__(self, o))

    def __and__(self, o):
        return OSet(set.__and__(self, o))

    def __sub__(self, o):
        return OSet(set.__sub__(self, o))

    def __xor__(self, o):
        return OSet(set.__xor__(self, o))

    def union(self, *a):
        return OSet(set.union(self, *a))

    def intersection(self, *a):
        return OSet(set.intersection(self, *a))

    def difference(self, *a):
        return OSet(set.difference(self, *a))

    def copy(self):
        return OSet(set.copy(self))


SHIM_MODULES = [
    "orquesta.conducting", "orquesta.expressions.base", "orquesta.expressions.jinja", "orquesta.expressions.yql",
    "orquesta.expressions.functions.workflow", "orquesta.specs.base", "orquesta.specs.native.v1.models",
    "orquesta.composers.native", "orquesta.utils.schema", "orquesta.graphing", "orquesta.machines",
]


def install_shim():
    import importlib

    for m in SHIM_MODULES:
        mod = importlib.import_module(m)
        mod.set = OSet


def scan_set_literals():
    """Set literals / comprehensions cannot be intercepted by the shim: fail loudly if one appears."""
    import ast
    import importlib

    found = []
    for m in SHIM_MODULES:
        mod = importlib.import_module(m)
        with open(mod.__file__) as f:
            tree = ast.parse(f.read())
        for node in ast.walk(tree):
            if isinstance(node, (ast.Set, ast.SetComp)):
                found.append("%s:%d" % (m, node.lineno))
    return found


def alt_perms(n):
    if n <= 3:
        idx = list(range(n))
        return [list(p) for p in itertools.permutations(idx) if list(p) != idx]
    return [list(range(n))[::-1], list(range(1, n)) + [0], [n - 1] + list(range(n - 1))]


def check_setorder(case):
    """All single deviations (and pairs if case['pairs']) of set iteration order for one definition."""
    if os.environ.get("ORQUESTA_VERIF") != "1":
        os.environ["ORQUESTA_VERIF"] = "1"
    install_shim()
    wf, inputs = case["wf"], case.get("inputs")
    Ctrl.reset()
    artefact_digests(wf, inputs)  # warm-up: one-time initialisation (schema caches) iterates sets too
    Ctrl.reset()
    base = artefact_digests(wf, inputs)
    log = list(Ctrl.log)
    Ctrl.reset()
    again = artefact_digests(wf, inputs)
    if again != base or [x[0] for x in Ctrl.log] != [x[0] for x in log]:
        return {"harness_error": "set-order shim: two default-order runs differ for %s" % case["name"], "case": case}
    out = []
    runs = 0
    points = [(i, sz, site) for i, (sz, site) in enumerate(log) if sz >= 2]
    cap = case.get("per_site_cap")
    if cap:
        # quick tier: the first `cap` iterations of every (code site, set size) pair
        seen_sites = {}
        kept = []
        for (i, sz, site) in points:
            k = (site, sz)
            seen_sites[k] = seen_sites.get(k, 0) + 1
            if seen_sites[k] <= cap:
                kept.append((i, sz, site))
        points = kept
    for (i, sz, site) in points:
        for p in alt_perms(sz):
            Ctrl.reset(target=i, perm=lambda items, p=p: [items[j] for j in p] if len(p) == len(items)
                       else list(reversed(items)))
            got = artefact_digests(wf, inputs)
            runs += 1
            if got != base:
                aspect = [k for k in sorted(set(base) | set(got)) if base.get(k) != got.get(k)][0]
                out.append({"property": "C19", "kind": "set_order_dependent",
                            "sig": {"artefact": aspect, "site": site},
                            "detail": {"iteration": i, "size": sz, "perm": p}, "case": case})
                break
        if out:
            break
    Ctrl.reset()
    return {"violations": out, "set_iterations": len(log), "choice_points": len(points), "runs": runs}




def check_seedpair(case):
    """Replay of a hash-seed finding: recompute the digests under the two seeds."""
    import tempfile

    with tempfile.TemporaryDirectory() as td:
        res = run_seeds([{"name": case["name"], "wf": case["wf"], "inputs": case.get("inputs")}], case["seeds"], td)
    a, b = res[case["seeds"][0]][case["name"]], res[case["seeds"][1]][case["name"]]
    if a != b:
        aspect = [k for k in sorted(a) if a.get(k) != b.get(k)][0]
        return {"violations": [{"property": "C19", "kind": "hash_seed_dependent", "sig": {"artefact": aspect},
                                "detail": {}, "case": case}]}
    return {"violations": []}


if __name__ == "__main__":
    seed_run_main()
