"""Explicit-state exploration of the orquesta conductor (see /verif/DESIGN.md)."""

import os
import sys

# Mutation runs point VERIF_REPO at a scratch copy/worktree of the repository;
# by default the editable install resolves ``orquesta`` to /repo.
_repo = os.environ.get("VERIF_REPO")
if _repo and _repo not in sys.path:
    sys.path.insert(0, _repo)

import logging  # noqa: E402

logging.disable(logging.CRITICAL)
