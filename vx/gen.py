"""Scenario families: enumerated definitions (never random)."""

import glob
import itertools
import os

import yaml

from vx.sim import Scenario

S = "<% succeeded() %>"
F = "<% failed() %>"
C = "<% completed() %>"

OK = ["succeeded", None]
KO = ["failed", None]
SF = {"*": [OK, KO]}
S_ONLY = {"*": [OK]}

REPO = os.environ.get("VERIF_REPO") or "/repo"
FIXDIR = os.path.join(REPO, "orquesta/tests/fixtures/workflows/native")


def T(next=None, join=None, action="core.noop", **kw):
    t = {"action": action}
    if join is not None:
        t["join"] = join
    t.update(kw)
    if next:
        t["next"] = next
    return t


def N(when, do=None, publish=None):
    n = {}
    if when is not None:
        n["when"] = when
    if publish:
        n["publish"] = [{k: v} for k, v in publish]
    if do is not None:
        n["do"] = do
    return n


def WF(tasks, **kw):
    wf = {"version": 1.0}
    wf.update(kw)
    wf["tasks"] = tasks
    return wf


def scn(name, wf, family, outcomes=None, inputs=None, meta=None):
    meta = dict(meta or {})
    items = [t for t, d in wf["tasks"].items() if d and d.get("with")]
    if items:
        meta["items_tasks"] = items
    return Scenario(name, wf, inputs=inputs, outcomes=outcomes or SF, family=family, meta=meta)


# ----------------------------------------------------------------------------- F2
def f2_sequences():
    out = []
    out.append(("seq1", WF({"a": T()})))
    out.append(("seq2", WF({"a": T([N(S, "b")]), "b": T()})))
    out.append(("seq3", WF({"a": T([N(S, "b")]), "b": T([N(S, "c")]), "c": T()})))
    out.append(("seq2-always", WF({"a": T([N(None, "b")]), "b": T()})))
    out.append(("seq2-complete", WF({"a": T([N(C, "b")]), "b": T()})))
    return out


def f2_decisions():
    out = []
    out.append(("decide", WF({"a": T([N(S, "b"), N(F, "c")]), "b": T(), "c": T()})))
    out.append(
        (
            "decide-merge",
            WF(
                {
                    "a": T([N(S, "b"), N(F, "c")]),
                    "b": T([N(S, "d")]),
                    "c": T([N(S, "d")]),
                    "d": T(),
                }
            ),
        )
    )
    out.append(
        (
            "decide-result",
            WF(
                {
                    "a": T(
                        [
                            N("<% succeeded() and result() = 'x' %>", "b"),
                            N("<% succeeded() and result() = 'y' %>", "c"),
                        ]
                    ),
                    "b": T(),
                    "c": T(),
                }
            ),
            {"*": [OK, KO], "a": [["succeeded", "x"], ["succeeded", "y"], ["succeeded", "z"], KO]},
        )
    )
    out.append(
        (
            "decide-result-falsy",
            WF(
                {
                    "a": T(
                        [
                            N("<% succeeded() and result() = 0 %>", "b"),
                            N("<% succeeded() and result() = 1 %>", "c"),
                            N("<% succeeded() and result() = '' %>", "d"),
                        ]
                    ),
                    "b": T(),
                    "c": T(),
                    "d": T(),
                }
            ),
            {"*": [OK], "a": [["succeeded", 0], ["succeeded", 1], ["succeeded", ""], ["succeeded", None],
                              ["succeeded", []], ["failed", 0]]},
        )
    )
    return out


def f2_handlers():
    out = []
    for h in ("noop", "fail", "continue"):
        out.append(("handler-%s" % h, WF({"a": T([N(S, "b"), N(F, h)]), "b": T()})))
        out.append(
            (
                "handler-%s-par" % h,
                WF({"a": T([N(S, "b"), N(F, h)]), "b": T(), "z": T([N(S, "y")]), "y": T()}),
            )
        )
    out.append(
        (
            "handler-fail-cleanup",
            WF({"a": T([N(S, "b"), N(F, ["c", "fail"])]), "b": T(), "c": T([N(S, "d")]), "d": T()}),
        )
    )
    out.append(
        (
            "handler-fail-cleanup-par",
            WF(
                {
                    "a": T([N(S, "b"), N(F, ["c", "fail"])]),
                    "b": T(),
                    "c": T(),
                    "z": T([N(S, "y")]),
                    "y": T(),
                }
            ),
        )
    )
    out.append(
        (
            "handler-succeed-fail",
            WF({"a": T([N(S, ["b", "fail"])]), "b": T()}),
        )
    )
    out.append(
        (
            "handler-multi-commands",
            WF({"a": T([N(F, "noop"), N(F, "fail"), N(C, "continue"), N(S, "b")]), "b": T()}),
        )
    )
    out.append(
        (
            "handler-task-noop",
            WF({"a": T([N(F, ["c", "noop"]), N(S, "b")]), "b": T(), "c": T()}),
        )
    )
    out.append(
        (
            "handler-remediate-then-next",
            WF({"a": T([N(F, "c"), N(S, "b")]), "b": T(), "c": T([N(S, "b2")]), "b2": T()}),
        )
    )
    return out


def f2_fanin(tier):
    """m inbound branches x barrier x per-edge condition x branch length x tail."""
    out = []
    ms = (2, 3) if tier == "quick" else (2, 3, 4)
    for m in ms:
        barriers = ["all"] + list(range(1, m + 2))
        for barrier in barriers:
            cond_sets = [tuple([S] * m)]
            # one edge differs: *, F ; plus all-completed
            for alt in (None, F, C):
                cond_sets.append(tuple([alt] + [S] * (m - 1)))
            if tier != "quick" or m == 2:
                cond_sets.append(tuple([F] * m))
            if tier != "quick":
                cond_sets.append(tuple([C] * m))
            for conds in cond_sets:
                for blen in (1, 2):
                    if blen == 2 and (m > 3 or (tier == "quick" and (m > 2 or conds[0] != S))):
                        continue
                    for tail in (False, True):
                        if tail and tier == "quick" and (conds[0] not in (S,) or blen == 2):
                            continue
                        tasks = {}
                        starts = []
                        for i in range(m):
                            b = "b%d" % i
                            starts.append(b)
                            if blen == 1:
                                tasks[b] = T([N(conds[i], "j")])
                            else:
                                tasks[b] = T([N(S, b + "x")])
                                tasks[b + "x"] = T([N(conds[i], "j")])
                        tasks = dict([("a", T([N(S, starts)]))] + list(tasks.items()))
                        tasks["j"] = T([N(S, "t")] if tail else None, join=barrier)
                        if tail:
                            tasks["t"] = T()
                        cn = "".join({S: "S", F: "F", C: "C", None: "A"}[c] for c in conds)
                        name = "fanin-m%d-j%s-%s-l%d%s" % (m, barrier, cn, blen, "-tail" if tail else "")
                        out.append((name, WF(tasks)))
    return out


def f2_fanin_extra():
    out = []
    # roots feed the join directly (no common ancestor)
    out.append(
        (
            "fanin-roots-all",
            WF({"b0": T([N(S, "j")]), "b1": T([N(S, "j")]), "j": T(join="all")}),
        )
    )
    # a branch that never transitions into the join on success
    out.append(
        (
            "fanin-one-edge-on-fail",
            WF(
                {
                    "a": T([N(S, ["b0", "b1"])]),
                    "b0": T([N(S, "j")]),
                    "b1": T([N(F, "j"), N(S, "k")]),
                    "k": T(),
                    "j": T(join="all"),
                }
            ),
        )
    )
    # remediated branch continues into the join
    out.append(
        (
            "fanin-remediated",
            WF(
                {
                    "a": T([N(S, ["b0", "b1"])]),
                    "b0": T([N(S, "j")]),
                    "b1": T([N(S, "j"), N(F, "r")]),
                    "r": T([N(S, "j")]),
                    "j": T(join=2),
                }
            ),
        )
    )
    # parallel edges between the same pair
    out.append(
        (
            "fanin-parallel-edges",
            WF(
                {
                    "a": T([N(S, ["b0", "b1"])]),
                    "b0": T([N(S, "j"), N(C, "j")]),
                    "b1": T([N(S, "j")]),
                    "j": T(join="all"),
                }
            ),
        )
    )
    # two joins in sequence
    out.append(
        (
            "fanin-two-joins",
            WF(
                {
                    "a": T([N(S, ["b0", "b1", "b2"])]),
                    "b0": T([N(S, "j1")]),
                    "b1": T([N(S, "j1")]),
                    "b2": T([N(S, "j2")]),
                    "j1": T([N(S, "j2")], join="all"),
                    "j2": T(join="all"),
                }
            ),
        )
    )
    # join: 3 with three inbound transitions from only two tasks (can never be satisfied)
    out.append(
        (
            "fanin-count-gt-tasks",
            WF(
                {
                    "a": T([N(S, ["b0", "b1"])]),
                    "b0": T([N(S, "j"), N(C, "j")]),
                    "b1": T([N(S, "j")]),
                    "j": T(join=3),
                }
            ),
        )
    )
    # a task that transitions into a join and into a sibling task with one `do` (join sorts first)
    out.append(
        (
            "fanout-join-and-task",
            WF(
                {
                    "t0": T([N(S, ["a", "b"])]),
                    "a": T([N(S, ["j", "k"])]),
                    "b": T([N(S, "j")]),
                    "j": T(join="all"),
                    "k": T([N(S, "kend")]),
                    "kend": T(),
                }
            ),
        )
    )
    # join: all where one inbound task sits on a conditional branch that is skipped, beside a longer branch
    out.append(
        (
            "fanin-skipped-conditional-branch",
            WF(
                {
                    "a": T([N(S, ["b", "c", "z"])]),
                    "b": T([N(S, "j")]),
                    "c": T([N(F, "x")]),
                    "x": T([N(S, "j")]),
                    "j": T([N(S, "t")], join="all"),
                    "t": T(),
                    "z": T([N(S, "z2")]),
                    "z2": T(),
                }
            ),
        )
    )
    # join inside split lineages
    out.append(
        (
            "fanin-in-split",
            WF(
                {
                    "r0": T([N(S, "s")]),
                    "r1": T([N(S, "s")]),
                    "s": T([N(S, ["b0", "b1"])]),
                    "b0": T([N(S, "j")]),
                    "b1": T([N(S, "j")]),
                    "j": T(join="all"),
                }
            ),
        )
    )
    return out


def f2_splits():
    out = []
    out.append(
        (
            "split-2",
            WF({"a": T([N(S, "c")]), "b": T([N(S, "c")]), "c": T([N(S, "d")]), "d": T()}),
        )
    )
    out.append(
        (
            "split-transition",
            WF({"a": T([N(S, "c"), N(C, "c")]), "c": T([N(S, "d")]), "d": T()}),
        )
    )
    out.append(
        (
            "split-nested",
            WF(
                {
                    "a": T([N(S, "c")]),
                    "b": T([N(S, "c")]),
                    "c": T([N(S, ["d", "e"])]),
                    "d": T([N(S, "f")]),
                    "e": T([N(S, "f")]),
                    "f": T(),
                }
            ),
        )
    )
    out.append(
        (
            "split-fail-merge",
            WF(
                {
                    "a": T([N(S, "b"), N(F, "c")]),
                    "b": T([N(C, "c")]),
                    "c": T(),
                }
            ),
        )
    )
    return out


def loop_wf(k=2, body=1, exit_task=True, inside=None):
    """Counter-bounded loop, single entry and back edge."""
    tasks = {"p": T([N(S, "l0")])}
    for i in range(body):
        nxt = "l%d" % (i + 1)
        if i == body - 1:
            tr = [
                N(
                    "<%% succeeded() and ctx().n < %d %%>" % k,
                    "l0",
                    publish=[("n", "<% ctx().n + 1 %>")],
                )
            ]
            if exit_task:
                tr.append(N("<%% succeeded() and ctx().n >= %d %%>" % k, "x"))
            tasks["l%d" % i] = T(tr)
        else:
            tasks["l%d" % i] = T([N(S, nxt)])
    if exit_task:
        tasks["x"] = T()
    return WF(tasks, vars=[{"n": 0}])


def loop_forkjoin_wf(k=1):
    """p -> a -> (b, c) -> j (join all) -> back to a while n < k, then x."""
    return WF({
        "p": T([N(S, "a")]),
        "a": T([N(S, ["b", "c"])]),
        "b": T([N(S, "j")]),
        "c": T([N(S, "j")]),
        "j": T([N("<%% succeeded() and ctx().n < %d %%>" % k, "a", publish=[("n", "<% ctx().n + 1 %>")]),
                N("<%% succeeded() and ctx().n >= %d %%>" % k, "x")], join="all"),
        "x": T(),
    }, vars=[{"n": 0}])


def loop_fork_out_wf(k=2):
    """Every pass of the loop forks to a multi-referenced task outside the loop (report), which has a successor."""
    return WF({
        "init": T([N(S, ["work", "report"])]),
        "work": T([N(S, ["check", "report"])]),
        "check": T([N("<%% succeeded() and ctx().n < %d %%>" % k, "work", publish=[("n", "<% ctx().n + 1 %>")]),
                    N("<%% succeeded() and ctx().n >= %d %%>" % k, "finish")]),
        "report": T([N(S, "archive")]),
        "archive": T(),
        "finish": T(),
    }, vars=[{"n": 0}])


def loop_split_forkjoin_wf(k=1):
    return WF({
        "init": T([N(S, ["work", "s"])]),
        "work": T([N(S, ["check", "s"])]),
        "check": T([N("<%% succeeded() and ctx().n < %d %%>" % k, "work", publish=[("n", "<% ctx().n + 1 %>")])]),
        "s": T([N(S, ["x", "y"])]),
        "x": T([N(S, "j")]),
        "y": T([N(S, "j")]),
        "j": T(join="all"),
    }, vars=[{"n": 0}])


def f2_loops(tier):
    out = []
    out.append(("loop-split-forkjoin-k1", loop_split_forkjoin_wf(1), S_ONLY))
    out.append(("loop-fork-out-k1", loop_fork_out_wf(1), S_ONLY))
    out.append(("loop-k1-b1", loop_wf(1, 1)))
    out.append(("loop-k2-b1", loop_wf(2, 1)))
    out.append(("loop-forkjoin-k1", loop_forkjoin_wf(1), S_ONLY))
    if tier != "quick":
        out.append(("loop-k2-b2", loop_wf(2, 2)))
        out.append(("loop-k1-b2-noexit", loop_wf(1, 2, exit_task=False)))
    return out


def f2_all(tier):
    defs = []
    defs += f2_sequences()
    defs += f2_decisions()
    defs += f2_handlers()
    defs += f2_fanin(tier)
    defs += f2_fanin_extra()
    defs += f2_splits()
    defs += f2_loops(tier)
    out = []
    for d in defs:
        name, wf = d[0], d[1]
        oc = d[2] if len(d) > 2 else None
        out.append(scn("F2/" + name, wf, "F2", outcomes=oc))
    return out


# ----------------------------------------------------------------------------- F1
CMDS = ("noop", "fail", "continue")


def _patterns(targets):
    """Out-patterns of the micro grammar over the given target names."""
    pats = [None]
    for x in targets:
        pats.append([N(None, x)])
        pats.append([N(S, x)])
        pats.append([N(F, x)])
    for x in targets:
        for y in targets:
            pats.append([N(S, x), N(F, y)])
            pats.append([N(S, x), N(None, y)])
    for x, y in itertools.combinations(targets, 2):
        pats.append([N(None, [x, y])])
    for x in targets:
        if x != "fail":
            pats.append([N(F, [x, "fail"])])
    return pats


def f1_defs(ntasks=2, cmds=CMDS):
    """Acyclic micro definitions over tasks a,b(,c): task i may only target later tasks."""
    names = ["a", "b", "c"][:ntasks]
    per_task = []
    for i, n in enumerate(names):
        targets = names[i + 1 :] + list(cmds)
        per_task.append(_patterns(targets))
    for combo in itertools.product(*per_task):
        base = {}
        for n, p in zip(names, combo):
            base[n] = T(p)
        # join options where a task has >= 2 inbound transition entries
        inbound = {n: 0 for n in names}
        for n in names:
            for tr in base[n].get("next") or []:
                do = tr.get("do")
                do = [do] if isinstance(do, str) else do
                for x in do:
                    if x in inbound:
                        inbound[x] += 1
        join_opts = []
        for n in names:
            if inbound[n] >= 2:
                join_opts.append([None, "all", 1, 2])
            else:
                join_opts.append([None])
        for joins in itertools.product(*join_opts):
            tasks = {}
            for n, j in zip(names, joins):
                t = dict(base[n])
                if j is not None:
                    t = dict(t)
                    t["join"] = j
                tasks[n] = t
            yield WF(tasks)


def f1_all(ntasks=2, cmds=CMDS, limit=None):
    out = []
    for i, wf in enumerate(f1_defs(ntasks, cmds)):
        out.append(scn("F1/%d-%d" % (ntasks, i), wf, "F1"))
        if limit and len(out) >= limit:
            break
    return out


# ----------------------------------------------------------------------------- F3
def f3_fixture_names():
    return sorted(os.path.basename(p)[:-5] for p in glob.glob(os.path.join(FIXDIR, "*.yaml")))


F3_INPUTS = {
    "with-items": {"members": ["a", "b", "c"]},
    "with-items-concurrency": {"members": ["a", "b", "c"]},
    "with-items-parallel": {"members": ["a", "b", "c"]},
    "with-items-remediate": {"members": ["a", "b", "c"]},
    "with-items-transition": {"members": ["a", "b", "c"]},
    "with-multi-items": {"members": ["a", "b"], "messages": ["x", "y"]},
    "with-multi-items-concurrency": {"members": ["a", "b"], "messages": ["x", "y"]},
}


def f3_all(names=None, outcomes=None):
    out = []
    for n in f3_fixture_names():
        if names and n not in names:
            continue
        with open(os.path.join(FIXDIR, n + ".yaml")) as f:
            wf = yaml.safe_load(f)
        wf.pop("description", None)
        out.append(scn("F3/" + n, wf, "F3", outcomes=outcomes, inputs=F3_INPUTS.get(n)))
    return out


# ----------------------------------------------------------------------------- F4
def f4_defs(tier):
    out = []
    ns = (0, 1, 2, 3) if tier == "quick" else (0, 1, 2, 3, 4)
    for n in ns:
        concs = [None, 1, 2, n + 1, "<% ctx(k) %>"]
        for k in concs:
            w = {"items": "<% ctx(xs) %>"}
            if k is not None:
                w["concurrency"] = k
            inputs = {"xs": list(range(n)), "k": 2}
            t = T(action="core.echo", input={"message": "<% item() %>"})
            t["with"] = w
            kn = {None: "none", "<% ctx(k) %>": "expr"}.get(k, k)
            base = "items-n%d-k%s" % (n, kn)
            out.append((base + "-alone", WF({"t": dict(t)}, input=["xs", "k"]), inputs))
            if n in (2, 3) and k in (None, 2):
                t2 = dict(t)
                t2["next"] = [N(S, "u")]
                out.append(
                    (base + "-then", WF({"t": t2, "u": T()}, input=["xs", "k"]), inputs)
                )
                out.append(
                    (
                        base + "-sibling",
                        WF({"t": dict(t), "s": T([N(S, "s2")]), "s2": T()}, input=["xs", "k"]),
                        inputs,
                    )
                )
                t3 = dict(t)
                t3["next"] = [N(F, "h")]
                out.append(
                    (base + "-remediate", WF({"t": t3, "h": T()}, input=["xs", "k"]), inputs)
                )
    # more items than twice the window (out-of-order completion inside the window)
    if tier == "quick":
        t = T(action="core.echo", input={"message": "<% item() %>"})
        t["with"] = {"items": "<% ctx(xs) %>", "concurrency": 2}
        out.append(("items-n4-k2-window", WF({"t": t}, input=["xs", "k"]), {"xs": [0, 1, 2, 3], "k": 2}))
    # literal concurrency 0 (the schema allows it; it means 1)
    t = T(action="core.echo", input={"message": "<% item() %>"})
    t["with"] = {"items": "<% ctx(xs) %>", "concurrency": 0}
    out.append(("items-n2-kliteral0", WF({"t": t}, input=["xs", "k"]), {"xs": [0, 1], "k": 0}))
    # concurrency <= 0 via expression
    for kv in (0, -1):
        t = T(action="core.echo", input={"message": "<% item() %>"})
        t["with"] = {"items": "<% ctx(xs) %>", "concurrency": "<% ctx(k) %>"}
        out.append(
            ("items-n3-kexpr%d" % kv, WF({"t": t}, input=["xs", "k"]), {"xs": [0, 1, 2], "k": kv})
        )
    # a with-items task with a window beside a task whose failure is handled by a clean-up task
    t = T(action="core.echo", input={"message": "<% item() %>"})
    t["with"] = {"items": "<% ctx(xs) %>", "concurrency": 1}
    out.append(("items-n3-k1-beside-remediated", WF({"t": t, "s": T([N(F, "h")]), "h": T()}, input=["xs", "k"]),
                {"xs": [0, 1, 2], "k": 1}))
    # a with-items task downstream of a plain task (rerun of the upstream task re-enters it)
    t = T(action="core.echo", input={"message": "<% item() %>"})
    t["with"] = {"items": "<% ctx(xs) %>", "concurrency": 2}
    out.append(("items-after-prep", WF({"prep": T([N(S, "t")]), "t": t}, input=["xs", "k"]), {"xs": [0, 1], "k": 2}))
    # a with-items task whose failure is remediated (its entry lingers in staging) beside a join that
    # is left partial when the items task takes its failure branch
    t = T([N(S, "b"), N(F, "c")], action="core.echo", input={"message": "<% item() %>"})
    t["with"] = {"items": "<% ctx(xs) %>"}
    out.append(("items-remediated-beside-partial-join", WF({
        "t0": T([N(None, ["t", "a"])]), "t": t, "a": T([N(S, "j")]), "b": T([N(S, "j")]), "c": T(),
        "j": T(join="all")}, input=["xs", "k"]), {"xs": [0, 1], "k": 2}))
    # repeated item values
    t = T(action="core.echo", input={"message": "<% item() %>"})
    t["with"] = {"items": "<% ctx(xs) %>", "concurrency": 2}
    out.append(("items-repeated-values", WF({"t": t}, input=["xs", "k"]), {"xs": [7, 8, 7, 9], "k": 2}))
    t = T(action="core.echo", input={"message": "<% item() %>"})
    t["with"] = {"items": "<% ctx(xs) %>"}
    out.append(("items-repeated-dicts", WF({"t": t}, input=["xs", "k"]), {"xs": [{"a": 1}, {"a": 1}, {"a": 2}], "k": 2}))
    # with-items task as a join target / multi-referenced target
    t = T(action="core.echo", input={"message": "<% item() %>"}, join="all")
    t["with"] = {"items": "<% ctx(xs) %>", "concurrency": 1}
    out.append(
        (
            "items-join-target",
            WF(
                {"a": T([N(S, ["b0", "b1"])]), "b0": T([N(S, "t")]), "b1": T([N(S, "t")]), "t": t},
                input=["xs", "k"],
            ),
            {"xs": [0, 1], "k": 1},
        )
    )
    t = T(action="core.echo", input={"message": "<% item() %>"})
    t["with"] = {"items": "<% ctx(xs) %>", "concurrency": 1}
    out.append(
        (
            "items-split-target",
            WF({"b0": T([N(S, "t")]), "b1": T([N(S, "t")]), "t": t}, input=["xs", "k"]),
            {"xs": [0, 1], "k": 1},
        )
    )
    return out


def f4_all(tier):
    return [scn("F4/" + n, wf, "F4", inputs=inp) for (n, wf, inp) in f4_defs(tier)]


# ----------------------------------------------------------------------------- F5
def f5_defs(tier):
    out = []
    counts = (0, 1, 2)
    whens = [None, F, S, C]
    for cnt in counts:
        for w in whens:
            if tier == "quick" and cnt == 0 and w not in (None, F):
                continue
            r = {"count": cnt}
            if w:
                r["when"] = w
            wn = {None: "dflt", F: "F", S: "S", C: "C"}[w]
            t = T([N(S, "b"), N(F, "h")], retry=dict(r))
            out.append(("retry-c%d-%s-seq" % (cnt, wn), WF({"a": t, "b": T(), "h": T()})))
            if cnt == 1 and w in (None, F, C):
                t = T([N(S, "b")], retry=dict(r))
                out.append(
                    (
                        "retry-c%d-%s-sibling" % (cnt, wn),
                        WF({"a": t, "b": T(), "z": T()}),
                    )
                )
    r = {"count": 1, "delay": 3}
    out.append(("retry-delay", WF({"a": T([N(S, "b")], retry=r), "b": T()})))
    r = {"count": "<% ctx(c) %>", "delay": "<% ctx(d) %>"}
    out.append(
        ("retry-expr", WF({"a": T([N(S, "b")], retry=r), "b": T()}, vars=[{"c": 1}, {"d": 2}]))
    )
    out.append(("retry-command", WF({"a": T([N(F, "retry"), N(S, "b")]), "b": T()})))
    out.append(("retry-command-nowhen", WF({"a": T([N(None, "retry")])})))
    # retry command listed beside another target
    out.append(("retry-command-with-cleanup", WF({"a": T([N(F, ["c", "retry"]), N(S, "b")]), "b": T(), "c": T()})))
    # retry on a multi-referenced task (two routes share the task)
    out.append(("retry-split-target", WF({
        "r0": T([N(S, "t")]), "r1": T([N(S, "t")]), "t": T(retry={"count": 1})})))
    # retry count is an expression over a variable that changes between loop iterations
    lw = loop_wf(2, 1)
    lw["tasks"]["l0"]["retry"] = {"count": "<% ctx(n) %>"}
    lw["tasks"]["l0"]["next"].append(N(F, "noop"))
    out.append(("retry-count-expr-in-loop", lw))
    # retry on a join task
    out.append(
        (
            "retry-on-join",
            WF(
                {
                    "a": T([N(S, ["b0", "b1"])]),
                    "b0": T([N(S, "j")]),
                    "b1": T([N(S, "j")]),
                    "j": T(join="all", retry={"count": 1}),
                }
            ),
        )
    )
    # retry on a join: 1 task (another branch can arrive while the task is staged for retry)
    out.append(
        (
            "retry-on-join1",
            WF(
                {
                    "a": T([N(S, ["b0", "b1"])]),
                    "b0": T([N(S, "j")]),
                    "b1": T([N(S, "j")]),
                    "j": T(join=1, retry={"count": 1, "delay": 7}),
                },
            ),
        )
    )
    # retry inside a loop
    lw = loop_wf(1, 1)
    lw["tasks"]["l0"]["retry"] = {"count": 1}
    out.append(("retry-in-loop", lw))
    # retry with result-test condition
    r = {"count": 2, "when": "<% result() = 'again' %>"}
    out.append(
        (
            "retry-result-test",
            WF({"a": T([N(S, "b")], retry=r), "b": T()}),
            {"*": [OK, KO], "a": [["succeeded", "again"], ["succeeded", "done"], ["failed", "again"]]},
        )
    )
    return out


def f5_all(tier):
    out = []
    for d in f5_defs(tier):
        out.append(scn("F5/" + d[0], d[1], "F5", outcomes=d[2] if len(d) > 2 else None))
    # retry on a with-items task
    t = T(action="core.echo", input={"message": "<% item() %>"}, retry={"count": 1})
    t["with"] = {"items": "<% ctx(xs) %>", "concurrency": 1}
    out.append(scn("F5/retry-items", WF({"t": t}, input=["xs"]), "F5", inputs={"xs": [0, 1]}))
    t = T([N(F, "h")], action="core.echo", input={"message": "<% item() %>"}, retry={"count": 2, "delay": 3})
    t["with"] = {"items": "<% ctx(xs) %>"}
    out.append(scn("F5/retry-items-c2", WF({"t": t, "h": T()}, input=["xs"]), "F5", inputs={"xs": [0, 1]}))
    return out


# ----------------------------------------------------------------------------- F6 publish placements
RES = "<% result() %>"
UNIQ = {"*": [["succeeded", "$uniq"], ["failed", "$uniq"]]}


def f6_defs(tier):
    V = [{"u": "u0"}, {"v": "v0"}]
    OUT = [{"u": "<% ctx(u) %>"}, {"v": "<% ctx(v) %>"}]
    out = []

    def add(name, tasks):
        out.append((name, WF(tasks, vars=V, output=OUT)))

    # fork/join, one branch publishes
    add("fj-one", {
        "a": T([N(S, ["b", "c"])]),
        "b": T([N(S, "j", publish=[("v", RES)])]),
        "c": T([N(S, "j")]),
        "j": T([N(S, "t")], join="all"), "t": T()})
    # both publish disjoint variables
    add("fj-disjoint", {
        "a": T([N(S, ["b", "c"])]),
        "b": T([N(S, "j", publish=[("u", RES)])]),
        "c": T([N(S, "j", publish=[("v", RES)])]),
        "j": T([N(S, "t")], join="all"), "t": T()})
    # both publish the same variable (independent values: later arrival wins)
    add("fj-conflict", {
        "a": T([N(S, ["b", "c"])]),
        "b": T([N(S, "j", publish=[("v", RES)])]),
        "c": T([N(S, "j", publish=[("v", RES)])]),
        "j": T([N(S, "t")], join="all"), "t": T()})
    # ancestor publishes, one branch republishes, the other merely inherits
    add("fj-inherit", {
        "a": T([N(S, "p", publish=[("v", RES)])]),
        "p": T([N(S, ["b", "c"])]),
        "b": T([N(S, "j", publish=[("v", RES)])]),
        "c": T([N(S, "j")]),
        "j": T([N(S, "t")], join="all"), "t": T()})
    # ancestor publishes on the forking transition itself
    add("fj-inherit-fork", {
        "a": T([N(S, ["b", "c"], publish=[("v", RES)])]),
        "b": T([N(S, "j", publish=[("v", RES)])]),
        "c": T([N(S, "j")]),
        "j": T([N(S, "t")], join="all"), "t": T()})
    # separate transitions, publish only on one: sibling must not see it
    add("sibling-transitions", {
        "a": T([N(S, "b", publish=[("u", RES)]), N(S, "c", publish=[("v", RES)])]),
        "b": T(), "c": T()})
    # chain then fork, publishes along the chain (sequential overwrite)
    add("chain-overwrite", {
        "a": T([N(S, "b", publish=[("v", RES)])]),
        "b": T([N(S, "c", publish=[("v", RES), ("u", "<% ctx(v) %>")])]),
        "c": T()})
    # the last task has transitions but none of them fires on success (its record is the terminal one)
    add("last-task-handler-only", {
        "a": T([N(S, "b", publish=[("v", RES)])]),
        "b": T([N(F, "h")]),
        "h": T()})
    # three-way fan-in with tail
    add("fj3-tail", {
        "a": T([N(S, ["b", "c", "d"])]),
        "b": T([N(S, "j", publish=[("v", RES)])]),
        "c": T([N(S, "j", publish=[("u", RES)])]),
        "d": T([N(S, "j")]),
        "j": T([N(S, "t", publish=[("u", "<% ctx(v) %>")])], join="all"), "t": T()})
    # multi-referenced task: each lineage sees its own value
    add("split-own-lineage", {
        "a": T([N(S, "s", publish=[("v", RES)])]),
        "b": T([N(S, "s", publish=[("v", RES)])]),
        "s": T([N(S, "t")]), "t": T()})
    # decision with handlers publishing different variables
    add("decide-publish", {
        "a": T([N(S, "b", publish=[("u", RES)]), N(F, "c", publish=[("v", RES)])]),
        "b": T(), "c": T()})
    # failure remediated: publish on the failure path reaches the join
    add("fj-remediate", {
        "a": T([N(S, ["b", "c"])]),
        "b": T([N(S, "j", publish=[("v", RES)]), N(F, "j", publish=[("u", RES)])]),
        "c": T([N(S, "j")]),
        "j": T(join="all")})
    # loop: counter and a variable republished each iteration
    lw = loop_wf(2, 1)
    lw["vars"] = [{"n": 0}, {"v": "v0"}]
    lw["tasks"]["l0"]["next"][0]["publish"].append({"v": RES})
    lw["output"] = [{"v": "<% ctx(v) %>"}, {"n": "<% ctx(n) %>"}]
    out.append(("loop-publish", lw))
    # a branch republishes the value it inherited (equal values, different publishes): it still supersedes
    add("fj-republish-same-literal", {
        "a": T([N(S, "p", publish=[("v", "base")])]),
        "p": T([N(S, ["b", "c"])]),
        "b": T([N(S, "j", publish=[("v", "base")])]),
        "c": T([N(S, "j", publish=[("v", "override")])]),
        "j": T([N(S, "t")], join="all"), "t": T()})
    # dictionary-valued variable that has no default, published by two successive tasks, with a sibling branch
    out.append(("dict-republish-nobase", WF({
        "s": T([N(S, ["a", "z"], publish=[("cfg", {"a": 1})])]),
        "a": T([N(S, "b", publish=[("cfg", {"b": 2})])]),
        "b": T(),
        "z": T([N(S, "z2", publish=[("seen", "<% ctx(cfg) %>")])]),
        "z2": T()}, vars=[{"seen": None}], output=[{"seen": "<% ctx(seen) %>"}]), S_ONLY))
    # a second name that refers to the same dictionary (Jinja returns the object itself): publishing under
    # one name must not change the other
    out.append(("dict-alias-jinja", WF({
        "t1": T([N(S, "t2", publish=[("a", {"q": RES})])]),
        "t2": T(input={"p": "<% ctx(b) %>"})},
        vars=[{"a": {"p": 1}}, {"b": "{{ ctx('a') }}"}], output=[{"b": "<% ctx(b) %>"}]), S_ONLY))
    out.append(("dict-alias-yaql", WF({
        "t1": T([N(S, "t2", publish=[("a", {"q": RES})])]),
        "t2": T(input={"p": "<% ctx(b) %>"})},
        vars=[{"a": {"p": 1}}, {"b": "<% ctx(a) %>"}], output=[{"b": "<% ctx(b) %>"}]), S_ONLY))
    # two terminal branches publish a dictionary under the same name (output rendering merges them)
    out.append(("dict-two-terminals", WF({
        "s": T([N(S, ["a", "b"])]),
        "a": T([N(S, "a2", publish=[("d", {"from_a": 1})])]),
        "a2": T(input={"p": "<% ctx(d) %>"}),
        "b": T([N(S, "b2", publish=[("d", {"from_b": 2})])]),
        "b2": T()}, vars=[{"d": {}}], output=[{"d": "<% ctx(d) %>"}])))
    # output refers to a variable that only a clean-up task (beside fail) publishes
    out.append(("cleanup-publishes-output", WF({
        "a": T([N(S, ["c", "fail"])]),
        "c": T([N(S, "noop", publish=[("report", "cleaned")])])},
        output=[{"report": "<% ctx(report) %>"}]), S_ONLY))
    # a dictionary value superseded by a scalar, a list and null
    out.append(("dict-then-scalar", WF({
        "a": T([N(S, "b", publish=[("x", {"code": 503, "msg": RES})])]),
        "b": T([N(S, "c", publish=[("x", "recovered"), ("y", None), ("z", [1, 2])])]),
        "c": T()}, vars=[{"x": None}, {"y": {"k": 1}}, {"z": {"k": 2}}],
        output=[{"x": "<% ctx(x) %>"}, {"y": "<% ctx(y) %>"}, {"z": "<% ctx(z) %>"}]), S_ONLY))
    # a branch writes a variable three times, the last value equal to a common ancestor's
    add("fj-republish-ancestor-value", {
        "t0": T([N(S, ["a1", "b1"], publish=[("v", "on")])]),
        "a1": T([N(S, "a2", publish=[("v", "off")])]),
        "a2": T([N(S, "j", publish=[("v", "on")])]),
        "b1": T([N(S, "j")]),
        "j": T([N(S, "t")], join="all"), "t": T()})
    # more than eight context entries before a join (index order vs publication order)
    chain = {}
    names = ["p1", "p2", "p3", "p4", "p5", "p6"]
    for i, n in enumerate(names):
        nxt = names[i + 1] if i + 1 < len(names) else ["a1", "b1"]
        chain[n] = T([N(S, nxt, publish=[("k%d" % i, i)])])
    chain["a1"] = T([N(S, "j", publish=[("w", "a")])])
    chain["b1"] = T([N(S, "b2", publish=[("v", "old")])])
    chain["b2"] = T([N(S, "j", publish=[("v", "new")])])
    chain["j"] = T(join="all")
    out.append(("fj-many-contexts", WF(chain, vars=V, output=OUT), S_ONLY))
    # a later sibling transition reads a variable an earlier sibling transition publishes (no leak between them)
    out.append(("sibling-reads-sibling", WF({
        "a": T([N(S, "b", publish=[("v", RES)]), N(S, "c", publish=[("u", "<% ctx(v) %>")])]),
        "b": T(), "c": T()}, vars=V, output=OUT)))
    lw2 = WF({
        "a": T([N(S, "b", publish=[("n", "<% ctx().n + 1 %>")]),
                N("<% succeeded() and ctx().n < 1 %>", "c"),
                N("<% succeeded() and ctx().n >= 1 %>", "d")]),
        "b": T(), "c": T(), "d": T()}, vars=[{"n": 0}])
    out.append(("sibling-condition-reads-sibling", lw2))
    # independent publishes of one variable; one branch publishes early and still has a task to run
    add("fj-conflict-early-publish", {
        "a": T([N(S, ["a1", "b1"])]),
        "a1": T([N(S, "a2", publish=[("v", RES)])]),
        "a2": T([N(S, "j")]),
        "b1": T([N(S, "j", publish=[("v", RES)])]),
        "j": T([N(S, "t")], join="all"), "t": T()})
    # a task forks into a join and a sibling that reads an input variable (C08: shared lists across transitions)
    out.append(("fanout-join-and-task-ctx", WF({
        "t0": T([N(S, ["a", "b"], publish=[("u", RES)])]),
        "a": T([N(S, ["j", "k"], publish=[("v", RES)])]),
        "b": T([N(S, "j")]),
        "j": T(join="all"),
        "k": T([N(S, "kend")], input={"p": "<% ctx(base) %>"}),
        "kend": T(input={"p": "<% ctx(u) %>"})}, vars=V + [{"base": 10}], output=OUT)))
    # same shape, but the forking transition publishes nothing and the other branch publishes a secret
    out.append(("fanout-join-and-task-nopub", WF({
        "t0": T([N(S, ["a", "b"])]),
        "a": T([N(S, ["j", "k"])]),
        "b": T([N(S, "j", publish=[("secret", RES)])]),
        "j": T(join="all"),
        "k": T([N(S, "kend")], input={"p": "<% ctx(u) %>"}),
        "kend": T()}, vars=V, output=OUT)))
    # fork without a join, branches of different length, each publishing its own variable
    out.append(("fork-nojoin-publish", WF({
        "a": T([N(S, ["b", "c"])]),
        "b": T([N(S, "b2")]),
        "b2": T([N(S, "b3", publish=[("u", RES)])]),
        "b3": T(),
        "c": T([N(S, "c2", publish=[("v", RES)])]),
        "c2": T()}, vars=V, output=OUT)))
    # falsy results are values like any other
    out.append(("falsy-results", WF({
        "a": T([N(S, "b", publish=[("v", RES)])]),
        "b": T([N(S, "c", publish=[("u", "<% ctx(v) %>")])]),
        "c": T()}, vars=V, output=OUT), {"*": [["succeeded", 0], ["succeeded", False], ["succeeded", ""],
                                                 ["succeeded", []], ["succeeded", {}], ["succeeded", 0.0]]}))
    # dictionary-valued variable republished downstream (nested containers)
    out.append(("dict-republish", WF({
        "a": T([N(S, "b", publish=[("x", {"b": RES})])]),
        "b": T([N(S, "c", publish=[("x", {"c": RES})])]),
        "c": T()}, vars=[{"x": {"a": 1}}], output=[{"x": "<% ctx(x) %>"}])))
    if tier != "quick":
        add("fj-two-level", {
            "a": T([N(S, ["b", "c"], publish=[("u", RES)])]),
            "b": T([N(S, ["b1", "b2"], publish=[("v", RES)])]),
            "b1": T([N(S, "jb", publish=[("v", RES)])]),
            "b2": T([N(S, "jb")]),
            "jb": T([N(S, "j")], join="all"),
            "c": T([N(S, "j", publish=[("u", RES)])]),
            "j": T(join="all")})
    return out


def f6_publish(tier):
    out = []
    for d in f6_defs(tier):
        out.append(scn("F6/" + d[0], d[1], "F6", outcomes=d[2] if len(d) > 2 else UNIQ))
    return out


# ----------------------------------------------------------------------------- fixed outcome assignments (C08)
def _acyclic(wf):
    from vx.refdef import RefDef

    return not RefDef(wf).has_cycle()


def assignments(task_names, max_full=5):
    names = list(task_names)
    if len(names) <= max_full:
        for bits in itertools.product((0, 1), repeat=len(names)):
            yield {n: b for n, b in zip(names, bits)}
    else:
        yield {n: 0 for n in names}
        for x in names:
            yield {n: (1 if n == x else 0) for n in names}
        for x, y in itertools.combinations(names, 2):
            yield {n: (1 if n in (x, y) else 0) for n in names}


def fixed_outcome_scenarios(base, uniq=False, max_full=5):
    out = []
    for s in base:
        if not _acyclic(s.wf):
            continue
        names = list(s.wf["tasks"].keys())
        for asg in assignments(names, max_full=max_full):
            oc = {}
            for n, fbit in asg.items():
                r = "$uniq" if uniq else None
                oc[n] = [["failed" if fbit else "succeeded", r]]
            tag = "".join("F" if asg[n] else "S" for n in names)
            out.append(
                Scenario(s.name + "@" + tag, s.wf, inputs=s.inputs, outcomes=oc, family=s.family, meta=dict(s.meta))
            )
    return out


BIG_PATTERNS = ("items-n4-k2-window", "items-remediated-beside", "fanin-skipped-conditional", "fanout-join-and-task", "retry-on-join1", "loop-forkjoin", "dict-two-terminals",
                "fork-nojoin-publish", "split-nested", "fanin-in-split", "-m3-", "-m4-", "fj3-tail", "fj-two-level", "items-n4", "items-n3-knone",
                "items-n3-k4", "-l2", "-tail", "two-joins", "cleanup-par", "fanin-remediated", "-j1-", "split-2",
                "decide-merge", "fanin-parallel-edges")


def is_big(s):
    return any(p in s.name for p in BIG_PATTERNS) or s.meta.get("big")


# ----------------------------------------------------------------------------- FX expression positions (C11)
BAD_EXPRS = {
    # kind -> {lang: expression}; all of them pass inspection when d (a dict) and n (an int) are defined
    "missing_key": {"yaql": "<% ctx(d).nokey %>", "jinja": "{{ ctx('d').nokey }}"},
    "wrong_type": {"yaql": "<% ctx(n) + 'x' %>", "jinja": "{{ ctx('n') + 'x' }}"},
    "unknown_function": {"yaql": "<% nosuchfn() %>", "jinja": "{{ nosuchfn() }}"},
    "zero_division": {"yaql": "<% 1 / (ctx(n) - 1) %>", "jinja": "{{ 1 / (ctx('n') - 1) }}"},
}

RAW_BLOCK = {"jinja": "{% raw %}x{% endraw %}{{ ctx('d').nokey }}"}

WRONG_RESULT = {"yaql": "<% ctx(s2) %>", "jinja": "{{ ctx('s2') }}"}  # evaluates to the text "2"

FX_POSITIONS = (
    "input", "vars", "action", "task_input", "items", "concurrency", "delay",
    "retry_when", "retry_count", "retry_delay", "when", "publish", "output",
)


def fx_host(position, expr):
    """a -> b -> c with a parallel z -> y; the expression sits in task b (or at workflow level)."""
    base_vars = [{"d": {"a": 1}}, {"n": 1}, {"xs": [1, 2]}]
    b = T([N(S, "c")])
    wf_kw = {"vars": list(base_vars)}
    trig = {"kind": "dispatch", "task": "b"}
    if position == "input":
        wf_kw = {"input": [{"d": {"a": 1}}, {"n": 1}, {"xs": [1, 2]}, {"x": expr}]}
        trig = {"kind": "start", "task": None}
    elif position == "vars":
        wf_kw["vars"] = base_vars + [{"x": expr}]
        trig = {"kind": "start", "task": None}
    elif position == "action":
        b["action"] = expr
    elif position == "task_input":
        b["input"] = {"p": expr}
    elif position == "items":
        b["with"] = {"items": expr}
    elif position == "concurrency":
        b["with"] = {"items": "<% ctx(xs) %>", "concurrency": expr}
    elif position == "delay":
        b["delay"] = expr
    elif position == "retry_when":
        b["retry"] = {"count": 1, "when": expr}
        trig = {"kind": "complete", "task": "b", "statuses": ["succeeded", "failed"],
                "only_if_status": list(("running", "resuming", "pausing", "canceling"))}
    elif position == "retry_count":
        b["retry"] = {"count": expr}
        trig = {"kind": "dispatch", "task": "b", "at_ack": True}
    elif position == "retry_delay":
        b["retry"] = {"count": 1, "delay": expr}
        trig = {"kind": "dispatch", "task": "b", "at_ack": True}
    elif position == "when":
        b["next"] = [N(expr, "c")]
        trig = {"kind": "complete", "task": "b", "transition": True}
    elif position == "publish":
        b["next"] = [N(S, "c", publish=[("x", expr)])]
        trig = {"kind": "complete", "task": "b", "transition": True, "status": "succeeded"}
    elif position == "output":
        wf_kw["output"] = [{"x": expr}]
        trig = {"kind": "render", "task": None}
    tasks = {"a": T([N(S, "b")]), "b": b, "c": T(), "z": T([N(S, "y")]), "y": T()}
    return WF(tasks, **wf_kw), trig


def fx_loop_host(position, expr):
    """The failing position sits in a loop body and fails only on the second iteration
    (n becomes 1 => 1/(n-1) fails; missing key after d is republished)."""
    return None


def fx_all(tier):
    out = []
    for pos in FX_POSITIONS:
        for kind, langs in BAD_EXPRS.items():
            if tier == "quick" and kind == "zero_division" and pos not in ("publish", "input", "vars", "output"):
                continue
            for lang, expr in langs.items():
                wf, trig = fx_host(pos, expr)
                meta = {"trigger": trig, "position": pos, "kind": kind, "lang": lang}
                out.append(scn("FX/%s-%s-%s" % (pos, kind, lang), wf, "FX", meta=meta))
    # Jinja text that combines a raw block with an expression that fails
    for pos in ("task_input", "publish", "vars", "output", "input"):
        wf, trig = fx_host(pos, RAW_BLOCK["jinja"])
        meta = {"trigger": trig, "position": pos, "kind": "raw_block_missing_key", "lang": "jinja"}
        out.append(scn("FX/%s-raw_block-jinja" % pos, wf, "FX", meta=meta))
    # the expression evaluates fine but yields text where an integer / list is needed
    for pos in ("concurrency", "delay", "retry_count", "retry_delay", "items"):
        for lang, expr in WRONG_RESULT.items():
            wf, trig = fx_host(pos, expr)
            wf["vars"] = wf["vars"] + [{"s2": "2"}]
            meta = {"trigger": trig, "position": pos, "kind": "wrong_result_type", "lang": lang}
            out.append(scn("FX/%s-wrong_result_type-%s" % (pos, lang), wf, "FX", meta=meta))
    # the failing expression sits in one of two clean-up tasks listed beside a fail command
    for kind, langs in BAD_EXPRS.items():
        if kind == "zero_division":
            continue
        for lang, expr in langs.items():
            wf = WF({
                "a": T([N(S, "b"), N(F, ["c1", "c2", "fail"])]),
                "b": T(),
                "c1": T(input={"p": expr}),
                "c2": T([N(S, "c3")]),
                "c3": T(),
            }, vars=[{"d": {"a": 1}}, {"n": 1}])
            meta = {"trigger": {"kind": "dispatch_failed_wf", "task": "c1"}, "position": "cleanup_task_input",
                    "kind": kind, "lang": lang}
            out.append(scn("FX/cleanup-%s-%s" % (kind, lang), wf, "FX", meta=meta))
            # retry condition that cannot be evaluated, on a task that fails and has a failure handler
            wf = WF({
                "a": T([N(S, "b")]),
                "b": T([N(S, "c"), N(F, "h")], retry={"count": 1, "when": expr}),
                "c": T(), "h": T(),
            }, vars=[{"d": {"a": 1}}, {"n": 1}])
            meta = {"trigger": {"kind": "complete", "task": "b", "statuses": ["succeeded", "failed"],
                                "only_if_status": ["running", "resuming", "pausing", "canceling"]},
                    "position": "retry_when_with_handler", "kind": kind, "lang": lang}
            out.append(scn("FX/retrywhen-handler-%s-%s" % (kind, lang), wf, "FX", meta=meta))
    # an expression that fails only on a later loop iteration (zero division once n == 1)
    for lang in ("yaql", "jinja"):
        e = BAD_EXPRS["zero_division"][lang]
        lw = loop_wf(2, 1)
        lw["tasks"]["l0"]["input"] = {"p": e.replace("ctx(n) - 1", "ctx(n) - 1").replace("ctx('n') - 1", "ctx('n') - 1")}
        meta = {"trigger": {"kind": "dispatch", "task": "l0", "when_ctx": {"n": 1}}, "position": "task_input_loop",
                "kind": "zero_division", "lang": lang}
        out.append(scn("FX/loop-task_input-%s" % lang, lw, "FX", meta=meta))
    # undefined variable at a join: published only on the success path of one branch
    for lang, expr in (("yaql", "<% ctx(zz) %>"), ("jinja", "{{ ctx('zz') }}")):
        wf = WF({
            "a": T([N(S, ["b", "c"])]),
            "b": T([N(S, "j", publish=[("zz", 1)]), N(F, "j")]),
            "c": T([N(S, "j")]),
            "j": T(join="all", input={"p": expr}),
        })
        meta = {"trigger": {"kind": "dispatch", "task": "j", "needs_failed": "b"}, "position": "task_input_join",
                "kind": "undefined_variable", "lang": lang}
        out.append(scn("FX/join-undefined-%s" % lang, wf, "FX", meta=meta))
    return out


def f4_result(tier):
    """with-items task whose result list is published and read by a successor."""
    out = []
    for n in (1, 2, 3):
        for k in (None, 1, 2):
            t = T(action="core.echo", input={"message": "<% item() %>"})
            t["with"] = {"items": "<% ctx(xs) %>"}
            if k:
                t["with"]["concurrency"] = k
            t["next"] = [N(S, "u", publish=[("r", "<% result() %>")])]
            wf = WF({"t": t, "u": T()}, input=["xs"], vars=[{"r": None}])
            out.append(scn("F4/result-n%d-k%s" % (n, k), wf, "F4",
                           outcomes={"*": [["succeeded", "$uniq"]]}, inputs={"xs": list(range(n))}))
    return out


# ----------------------------------------------------------------------------- graph shapes (C14)
def graph_shapes(tier):
    """Fan-out/fan-in, nested and mixed splits, parallel edges, cycles, commands: shapes for the composer."""
    out = []
    # k-ary fan-out into multi-referenced tasks, depth 2 and 3 (split tracking / pruning)
    for width in (2, 3):
        for depth in (2, 3) if tier != "quick" else (2,):
            tasks = {}
            prev = ["r%d" % i for i in range(width)]
            for p in prev:
                tasks[p] = T()
            for lv in range(depth):
                cur = ["l%d_%d" % (lv, i) for i in range(width)]
                for p in prev:
                    tasks[p]["next"] = [N(S, list(cur))]
                for c in cur:
                    tasks[c] = T()
                prev = cur
            out.append(("G/fan-w%d-d%d" % (width, depth), WF(tasks)))
    # mixed: split then join at different levels
    out.append(("G/split-then-join", WF({
        "a": T([N(S, "s")]), "b": T([N(S, "s")]),
        "s": T([N(S, ["x", "y"])]), "x": T([N(S, "j")]), "y": T([N(S, "j")]), "j": T([N(S, "t")], join="all"), "t": T()})))
    # several transitions between the same pair, with different conditions and positions
    out.append(("G/parallel-edges-3", WF({
        "a": T([N(S, "b"), N(F, "b"), N(C, ["b", "c"]), N(None, "c")]), "b": T(), "c": T()})))
    # command targets in every position
    out.append(("G/commands", WF({
        "a": T([N(S, ["b", "noop"]), N(F, ["fail"]), N(C, "continue"), N(F, "retry")]), "b": T([N(None, "noop")])})))
    # cycles: self loop, two-cycle with exit, cycle with fork extending from it
    out.append(("G/self-loop", WF({"p": T([N(S, "a")]), "a": T([N(F, "a"), N(S, "b")]), "b": T()})))
    out.append(("G/cycle-fork", WF({
        "p": T([N(S, "a")]), "a": T([N(S, ["b", "c"])]), "b": T([N(F, "a")]), "c": T([N(S, "d")]), "d": T()})))
    out.append(("G/cycle-join", WF({
        "p": T([N(S, "a")]), "a": T([N(S, ["b", "c"])]), "b": T([N(S, "j")]), "c": T([N(S, "j")]),
        "j": T([N(F, "a")], join="all")})))
    # diamond chains
    out.append(("G/diamonds", WF({
        "a": T([N(S, ["b", "c"])]), "b": T([N(S, "d")]), "c": T([N(S, "d")]),
        "d": T([N(S, ["e", "f"])]), "e": T([N(S, "g")]), "f": T([N(S, "g")]), "g": T()})))
    # the same next task named by two transitions of a task that also fans out
    out.append(("G/dup-target-fanout", WF({
        "a": T([N(S, ["notify", "sign", "archive"]), N(F, ["notify", "report", "package"])]),
        "notify": T(), "sign": T([N(S, "s2")]), "s2": T(), "archive": T([N(S, "a2")]), "a2": T(),
        "report": T([N(S, "r2")]), "r2": T(), "package": T([N(S, "p2")]), "p2": T()})))
    # comma separated do string that repeats a target
    out.append(("G/do-string-repeats-target", WF({
        "a": T([N(S, "b, c, b")]), "b": T([N(S, "d")]), "c": T(), "d": T()})))
    # declared retry spec with a delay plus the retry command: the command's policy replaces the spec
    out.append(("G/retry-spec-and-command", WF({
        "a": T([N(F, "retry"), N(S, "b")], retry={"count": 2, "delay": 30, "when": F}), "b": T()})))
    # task names with underscores whose concatenations collide (a_b -> c and a -> b_c) below a split task
    out.append(("G/underscore-names", WF({
        "r0": T([N(S, "s")]), "r1": T([N(S, "s")]),
        "s": T([N(S, ["a_b", "a"])]),
        "a_b": T([N(S, "c")]), "a": T([N(S, "b_c")]),
        "c": T([N(S, ["d", "noop"])], retry={"count": 1}), "b_c": T([N(S, "e")]), "d": T(), "e": T()})))
    # retry command beside other targets; join: 0
    out.append(("G/retry-with-targets", WF({
        "a": T([N(F, ["cleanup", "retry"]), N(S, "b")]), "b": T(), "cleanup": T()})))
    out.append(("G/join-zero", WF({
        "a": T([N(S, ["b", "c"])]), "b": T([N(S, "j")]), "c": T([N(S, "j")]), "j": T(join=0)})))
    # join with retry and join count
    out.append(("G/join-retry", WF({
        "a": T([N(S, ["b", "c"])]), "b": T([N(S, "j")]), "c": T([N(S, "j")]),
        "j": T(join=1, retry={"count": 2, "delay": 1, "when": F})})))
    return out


# ----------------------------------------------------------------------------- C20 shorthand / long form pairs
INLINE_VALUES = [
    # (text in the inline notation, value it denotes in the long form)
    ("5", 5), ("0", 0), ("-3", -3), ("1.5", 1.5), ("-0.5", -0.5), ("10", 10),
    ("true", True), ("True", True), ("TRUE", True), ("false", False), ("False", False),
    ("null", None),
    ("'abc'", "abc"), ('"abc"', "abc"), ("'a b'", "a b"), ('"a b"', "a b"),
    ('"a=b"', "a=b"), ("'a=b'", "a=b"), ('"a, b"', "a, b"), ('"x in y"', "x in y"), ("'k=v j=w'", "k=v j=w"),
    ("'1'", "1"), ('"1.5"', "1.5"), ('"true"', "true"), ("'null'", "null"), ('"-3"', "-3"),
    ("'{\"a\": 1}'", {"a": 1}), ("'{\"a\": \"b c\", \"d\": [1, 2]}'", {"a": "b c", "d": [1, 2]}),
    ("<% ctx(x) %>", "<% ctx(x) %>"), ("{{ ctx('x') }}", "{{ ctx('x') }}"),
    ('"<% ctx(x) %>"', "<% ctx(x) %>"), ("<% ctx(x) + 1 %>", "<% ctx(x) + 1 %>"),
    ("'it is'", "it is"), ('"semi;colon"', "semi;colon"),
    ("'say \"hi\"'", 'say "hi"'), ('"it\'s"', "it's"), ("'\"x\"'", '"x"'), ("'a \"b\" c'", 'a "b" c'),
    ('"\'x\'"', "'x'"),
    ("'{\"name\": \"<% ctx(x) %>\", \"size\": 9}'", {"name": "<% ctx(x) %>", "size": 9}),
    ("'{\"Name\": \"Bob\", \"Content-Type\": \"Text\"}'", {"Name": "Bob", "Content-Type": "Text"}),
]

DELIMS = [" ", ", ", "; ", ","]


def c20_pairs(tier):
    out = []

    def base(t1_short, t1_long, pub_short=None, pub_long=None, do_short="t2", do_long="t2"):
        def mk(t1, pub, do):
            n = {"when": "<% succeeded() %>"}
            if pub is not None:
                n["publish"] = pub
            if do is not None:
                n["do"] = do
            tasks = {"t1": dict(t1, next=[n]), "t2": {"action": "core.noop"}, "t3": {"action": "core.noop"}}
            return {"version": 1.0, "input": [{"x": 7}], "vars": [{"p": None}, {"q": None}],
                    "output": [{"p": "<% ctx(p) %>"}, {"q": "<% ctx(q) %>"}], "tasks": tasks}
        return mk(t1_short, pub_short, do_short), mk(t1_long, pub_long, do_long)

    # 1. action inline parameters: 1 parameter x every value; 2-3 parameters x delimiters
    for i, (txt, val) in enumerate(INLINE_VALUES):
        s, l = base({"action": "core.echo k=%s" % txt}, {"action": "core.echo", "input": {"k": val}})
        out.append(("action-1-%d" % i, s, l))
    multi = [INLINE_VALUES[j] for j in (0, 3, 6, 11, 14, 16, 19, 26, 28)]
    idx = 0
    for d in DELIMS:
        for a in range(len(multi)):
            for b in range(len(multi)):
                if tier == "quick" and (a + b) % 3:
                    continue
                (t1, v1), (t2, v2) = multi[a], multi[b]
                s, l = base({"action": "core.echo k=%s%sj=%s" % (t1, d, t2)},
                            {"action": "core.echo", "input": {"k": v1, "j": v2}})
                out.append(("action-2-%d" % idx, s, l))
                idx += 1
    for d in DELIMS[:3]:
        (t1, v1), (t2, v2), (t3, v3) = multi[0], multi[5], multi[7]
        s, l = base({"action": "core.echo k=%s%sj=%s%si=%s" % (t1, d, t2, d, t3)},
                    {"action": "core.echo", "input": {"k": v1, "j": v2, "i": v3}})
        out.append(("action-3-%s" % DELIMS.index(d), s, l))
    # 2. publish string
    for i, (txt, val) in enumerate(INLINE_VALUES):
        s, l = base({"action": "core.noop"}, {"action": "core.noop"}, "p=%s" % txt, [{"p": val}])
        out.append(("publish-1-%d" % i, s, l))
    for d in DELIMS[:2]:
        for a in range(0, len(multi), 2):
            (t1, v1), (t2, v2) = multi[a], multi[(a + 3) % len(multi)]
            s, l = base({"action": "core.noop"}, {"action": "core.noop"}, "p=%s%sq=%s" % (t1, d, t2),
                        [{"p": v1}, {"q": v2}])
            out.append(("publish-2-%d-%d" % (DELIMS.index(d), a), s, l))
    # 3. do: comma separated string vs list
    for sdo, ldo in (("t2", ["t2"]), ("t2, t3", ["t2", "t3"]), ("t2,t3", ["t2", "t3"]), ("t3 , t2", ["t3", "t2"]),
                     ("t2, noop", ["t2", "noop"]), ("t2, fail", ["t2", "fail"])):
        s, l = base({"action": "core.noop"}, {"action": "core.noop"}, None, None, sdo, ldo)
        out.append(("do-%s" % sdo.replace(" ", "").replace(",", "_"), s, l))
    # 4. omitted do means continue
    s, l = base({"action": "core.noop"}, {"action": "core.noop"}, [{"p": 1}], [{"p": 1}], None, "continue")
    out.append(("do-omitted", s, l))
    s, l = base({"action": "core.noop"}, {"action": "core.noop"}, "p=1", [{"p": 1}], None, ["continue"])
    out.append(("do-omitted-list", s, l))
    # 4b. a transition with a condition only (neither publish nor do) means do: continue
    def when_only(do):
        n1 = {"when": "<% succeeded() %>"}
        n2 = {"when": "<% succeeded() %>"}
        if do is not None:
            n1["do"] = do
            n2["do"] = do
        return {"version": 1.0, "tasks": {
            "a": {"action": "core.noop", "next": [n1, {"when": "<% succeeded() %>", "do": "r"}]},
            "b": {"action": "core.noop", "next": [n2, {"when": "<% succeeded() %>", "do": "r"}]},
            "r": {"action": "core.noop"}}}
    out.append(("do-whenonly", when_only(None), when_only("continue")))
    # 5. with: string vs mapping
    for w in ("<% ctx(xs) %>", "i in <% ctx(xs) %>", "a, b in <% zip(ctx(xs), ctx(ys)) %>", " i in <% ctx(xs) %> ",
              "{{ ctx('xs') }}", "i in {{ ctx('xs') }}"):
        def mk(withv):
            return {"version": 1.0, "input": [{"xs": [1, 2]}, {"ys": ["a", "b"]}],
                    "tasks": {"t1": {"with": withv, "action": "core.echo",
                                     "input": {"m": "<% item() %>"}}}}
        out.append(("with-%d" % len(out), mk(w), mk({"items": w})))
    return out


def f3_dev(s, tier):
    """Deviation bound for a repository fixture (bigger fixtures get a smaller bound)."""
    n = len(s.wf["tasks"])
    if tier == "quick":
        return 2 if n <= 5 else 1
    return 3 if n <= 6 else 2


HUGE_PATTERNS = ("split-nested", "fanin-in-split", "splits-nested", "fj-two-level", "loop-fork-out",
                 "loop-split-forkjoin")


def is_huge(s):
    return any(p in s.name for p in HUGE_PATTERNS)


# ----------------------------------------------------------------------------- rejected definitions (C19: identical report)
def rejected_defs():
    """Definitions that inspection rejects with several entries (the report must be deterministic)."""
    out = []
    refs = ["<% ctx().zq %>", "<% ctx().zq + 1 %>", "{{ ctx('zq') }}", "<% ctx(zq) %>"]
    for i in range(len(refs)):
        for j in range(len(refs)):
            if i >= j:
                continue
            a, b = refs[i], refs[j]
            out.append(("R/input-2refs-%d%d" % (i, j), WF({
                "a": T([N(S, "b")], input={"p": a, "q": b}), "b": T()})))
            out.append(("R/vars-2refs-%d%d" % (i, j), WF({"a": T()}, vars=[{"p": a}, {"q": b}])))
            out.append(("R/publish-2refs-%d%d" % (i, j), WF({
                "a": T([N(S, "b", publish=[("p", a), ("q", b)])]), "b": T()})))
            out.append(("R/one-expr-2vars-%d%d" % (i, j), WF({
                "a": T(input={"p": "<% ctx().zq + ctx().zr + ctx().zs %>", "q": b})})))
    six = ["va", "vb", "vc", "vd", "ve", "vf"]
    out.append(("R/converge-6vars", WF({
        "a": T([N(S, ["b", "c"])]),
        "b": T([N(S, "d", publish=[(v, 1) for v in six])]),
        "c": T([N(S, "d", publish=[(v, 1) for v in reversed(six)])]),
        "d": T(input={"p": "<% ctx().zq %>"})})))
    out.append(("R/many-undefined-targets", WF({
        "a": T([N(S, ["g1", "g2", "g3"]), N(F, ["g3", "g1"])]), "b": T([N(S, "g2")])})))
    out.append(("R/mixed-faults", WF({
        "a": T([N("<% 1 +/ 2 %>", "g1", publish=[("p", "<% ctx().zq %>")])], input={"x": "{{ ctx('zr') }}", "y": "<% ctx().zr %>"}),
        "noop": T()})))
    return out


def is_cyclic_huge(s):
    """Loops feeding split tasks: every transition costs ~100 ms in the engine (graph.in_cycle)."""
    return "loop-split-forkjoin" in s.name or "loop-fork-out" in s.name
