"""Per-property checks: scenario sets, bounds, monitors."""

import json
import os
import time

from vx import explore as ex
from vx import gen
from vx import runner
from vx.sim import Scenario

MC = "model_checking"

B = "vx.monitors.basic."


def job(scn, cfg, monitors, require_clean=True, deadline=None):
    # scheduling hint only: start the expected long poles first
    w = (3 if gen.is_huge(scn) else 0) + (2 if gen.is_big(scn) else 0) + (cfg.get("dev") or 4)
    if scn.name in ("F6/dict-two-terminals",) or gen.is_cyclic_huge(scn):
        w += 5
    return {
        "weight": w,
        "scn": scn.to_json(),
        "cfg": cfg,
        "monitors": monitors,
        "require_clean": require_clean,
        "deadline": deadline,
    }


def bounded(s, tier, base, big=(3, 5), huge=(2, 3)):
    """Full interleaving for small shapes; deviation-bounded for big / huge ones."""
    cfg = dict(base)
    q = 0 if tier == "quick" else 1
    if gen.is_big(s):
        cfg["dev"] = big[q]
    if gen.is_huge(s):
        cfg["dev"] = huge[q]
    return cfg


def _filter(jobs, only):
    if only:
        jobs = [j for j in jobs if only in j["scn"]["name"]]
    return jobs


# ------------------------------------------------------------------ C03
def c03(tier, seed, only=None):
    t0 = time.time()
    mons = [B + "Quiescence"]
    jobs = []
    fams = ("F2", "F4", "F5")
    jobs += _ctrl_jobs(tier, mons, dict(pause=1, resume=1, cancel=1, horizon=60, resume_only_at_rest=False),
                       families=fams)
    jobs += _ctrl_jobs(tier, mons, dict(rerun=1, rerun_mode="tasks", horizon=60), families=fams)
    jobs += _interim_jobs(tier, mons, dict(pause=1, resume=1, cancel=1, horizon=60))
    xo = [["timeout", None], ["abandoned", None]]
    for s in gen.f4_all(tier) + gen.f5_all(tier):
        if tier == "quick" and gen.is_big(s):
            continue
        jobs.append(job(s, dict(rerun=1, rerun_mode="tasks", extra_outcomes=xo, horizon=60,
                                dev=3 if tier == "quick" else 4), mons))
    jobs += _interim_jobs(tier, mons, dict(hold=1, pause=1, resume=2, horizon=60, resume_only_at_rest=False,
                                           dev=4 if tier == "quick" else 5))
    # an action that reports canceled on its own (the user canceled that one action, no workflow request)
    for s in gen.f2_all(tier) + gen.f4_all(tier) + gen.f5_all(tier):
        if gen.is_huge(s) or (tier == "quick" and gen.is_big(s) and s.family == "F2"):
            continue
        jobs.append(job(s, dict(extra_outcomes=[["canceled", None]], pause=1, resume=1, horizon=60,
                                dev=3 if tier == "quick" else 4), mons))
    for s in gen.f3_all():
        dev = gen.f3_dev(s, tier)
        jobs.append(job(s, dict(pause=1, resume=1, cancel=1, dev=dev, horizon=150), mons))
        jobs.append(job(s, dict(rerun=1, dev=dev, horizon=150), mons))
    jobs = _filter(jobs, only)
    results = runner.run_jobs(jobs, seed=seed)
    rule = (
        "explicit-state BFS over provider moves (dispatch / complete x outcome / pause / resume / "
        "cancel / rerun) on the real conductor; F2,F4,F5: all interleavings with <=1 pause, "
        "<=1 resume (at rest), <=1 cancel (both spellings) or <=1 rerun (default and per-task); big shapes "
        "and F3 fixtures deviation-bounded; oracle evaluated at every quiescent point (nothing in flight, "
        "empty offer); a state is distinct by canonical persisted state + aliasing + provider state"
    )
    return runner.finish("C03", tier, seed, MC, results, rule, t0, mons)


FL = "vx.monitors.flow."


# ------------------------------------------------------------------ C01
def c01(tier, seed, only=None):
    t0 = time.time()
    mons = [FL + "Justified"]
    jobs = []
    for s in gen.f2_all(tier) + gen.f6_publish(tier):
        jobs.append(job(s, bounded(s, tier, dict(horizon=60), big=(4, 6), huge=(2, 4)), mons))
    for s in gen.f1_all(2):
        jobs.append(job(s, dict(horizon=40), mons))
    if tier != "quick":
        # 3-task micro grammar with the command alphabet reduced to noop (complete within that alphabet)
        for s in gen.f1_all(3, cmds=("noop",)):
            jobs.append(job(s, dict(horizon=40), mons))
    dev = 2 if tier == "quick" else 3
    for s in gen.f3_all():
        jobs.append(job(s, dict(dev=gen.f3_dev(s, tier), horizon=150), mons))
    jobs = _filter(jobs, only)
    results = runner.run_jobs(jobs, seed=seed)
    rule = (
        "token-game reference stepped in lock-step on every transition of a BFS over dispatch/complete "
        "moves x outcomes {succeeded, failed} (plus result tokens); F1 (2-task micro grammar, complete) "
        "and F2: all interleavings incl. lazy dispatch; F3 fixtures: deviation bound %d; distinct = "
        "distinct canonical (engine state, provider state, reference state)" % dev
    )
    return runner.finish("C01", tier, seed, MC, results, rule, t0, mons)


# ------------------------------------------------------------------ C07
def c07(tier, seed, only=None):
    t0 = time.time()
    mons = [FL + "JoinBarrier"]
    jobs = []
    for s in gen.f2_all(tier):
        if "join" not in json.dumps(s.wf):
            continue
        jobs.append(job(s, bounded(s, tier, dict(horizon=60), big=(None, None), huge=(3, 5)), mons))
    # a pause that lands while the last inbound branch is in flight: the join is left partial and the
    # workflow completes (or must fail) on the resume request
    for s in gen.f2_all(tier):
        if "join" in json.dumps(s.wf) and "fanin-m2-" in s.name and not gen.is_huge(s) and (
                tier != "quick" or "-l1" in s.name):
            jobs.append(job(s, dict(horizon=60, pause=1, resume=1, dev=3 if tier == "quick" else 4), mons))
    dev = 2 if tier == "quick" else 3
    for s in gen.f3_all():
        if "join" not in json.dumps(s.wf):
            continue
        jobs.append(job(s, dict(dev=gen.f3_dev(s, tier), horizon=150), mons))
    jobs = _filter(jobs, only)
    results = runner.run_jobs(jobs, seed=seed)
    rule = (
        "fan-in sweeps (m inbound x barrier x edge conditions x branch length x tail, joins in split "
        "lineages, parallel edges) under all interleavings of dispatch/complete x {succeeded, failed}; "
        "join fixtures deviation-bounded (%d); reference arrivals counted per (join, lineage) by "
        "distinct inbound task" % dev
    )
    return runner.finish("C07", tier, seed, MC, results, rule, t0, mons)


# ------------------------------------------------------------------ C06
def c06(tier, seed, only=None):
    t0 = time.time()
    mons = [FL + "DataFlow"]
    jobs = []
    for s in gen.f6_publish(tier):
        jobs.append(job(s, dict(horizon=60), mons))
    jobs = _filter(jobs, only)
    results = runner.run_jobs(jobs, seed=seed)
    rule = (
        "publish-placement sweeps over fork/join, split, decision and loop shapes; every action "
        "completion returns a unique result token so a value identifies its publisher; causal "
        "version-map reference compared with the offered ctx of every task under all interleavings"
    )
    return runner.finish("C06", tier, seed, MC, results, rule, t0, mons)


REGISTRY = {
    "C01": c01,
    "C03": c03,
    "C06": c06,
    "C07": c07,
}


def run(prop, tier, seed, only=None):
    if prop not in REGISTRY:
        print("unknown property %s" % prop)
        return 2
    if tier != "quick" and "VERIF_BUDGET_S" not in os.environ:
        # the thorough tier explores until this wall-clock budget per worker pool is used up; what was cut is
        # listed in the evidence (scenarios_incomplete / scenarios_cut_by_time_budget). 0 = no budget.
        os.environ["VERIF_BUDGET_S"] = "3600"
    if tier != "quick" and "VERIF_MAX_STATES" not in os.environ:
        # deterministic size of the thorough tier: every exploration is a breadth-first prefix of at most this
        # many distinct states (the wall-clock budget above is only a safety net for slow machines)
        os.environ["VERIF_MAX_STATES"] = "10000"
    return REGISTRY[prop](tier, seed, only=only)


def replay_file(path):
    with open(path) as f:
        body = json.load(f)
    if body.get("fn"):
        from vx import static_checks as sc

        r = sc._run_case((body["fn"], body["case"]))
        want = (body["kind"], json.dumps(body.get("sig", {}), sort_keys=True, default=repr))
        got = [(v["kind"], json.dumps(v.get("sig", {}), sort_keys=True, default=repr)) for v in r.get("violations", [])]
        for g in got:
            print("  %s %s" % g)
        if want in got:
            print("VIOLATION property=%s replay=%s" % (body["property"], path))
            return 1
        print("violation not reproduced")
        return 0
    scn = Scenario.from_json(body["scenario"])
    cfg = ex.Config(**(body.get("cfg") or {}))
    mons = [runner.resolve(n) for n in body.get("monitors") or []]
    prior = [body["pair"]] if body.get("pair") else None
    sim, found = ex.run_path(scn, cfg, mons, body["history"], prior=prior)
    want = (body["property"], body["kind"], json.dumps(body.get("sig", {}), sort_keys=True))
    hit = [f for f in found if (f["property"], f["kind"], json.dumps(f.get("sig", {}), sort_keys=True)) == want]
    print("replayed %d moves on a fresh conductor; final status=%s" % (len(body["history"]), sim.status))
    for f in found:
        print("  step %s: %s %s %s" % (f.get("at"), f["property"], f["kind"], json.dumps(f.get("sig", {}), sort_keys=True)))
    if hit:
        print("VIOLATION property=%s replay=%s" % (body["property"], path))
        return 1
    print("violation not reproduced")
    return 0


# ------------------------------------------------------------------ C05 / C18
P = "vx.monitors.persist."


def _persist_jobs(tier, mons, crash):
    jobs = []
    for s in gen.f2_all(tier):
        cfg = dict(crash=crash, horizon=60, pause=1, resume=1, cancel=1)
        cfg["dev"] = 2 if tier == "quick" else 3
        if not gen.is_big(s) and tier != "quick":
            cfg["dev"] = 4
        if gen.is_huge(s) or (crash and tier == "quick" and "-m3-" in s.name):
            cfg["dev"] = 1 if tier == "quick" else 2
        if gen.is_cyclic_huge(s) and tier == "quick":
            continue
        jobs.append(job(s, cfg, mons))
        jobs.append(job(s, dict(crash=crash, horizon=60, rerun=1, rerun_mode="tasks", dev=cfg["dev"]), mons))
    for s in gen.f4_all(tier) + gen.f5_all(tier) + gen.f6_publish(tier):
        cfg = dict(crash=crash, horizon=60, pause=1, resume=1, cancel=1, dev=2 if tier == "quick" else 3)
        jobs.append(job(s, cfg, mons))
        jobs.append(job(s, dict(crash=crash, horizon=60, rerun=1, rerun_mode="tasks",
                                dev=2 if tier == "quick" else 3), mons))
    return jobs


def c05(tier, seed, only=None):
    t0 = time.time()
    mons = [P + "PersistTwin"]
    jobs = _persist_jobs(tier, mons, True)
    big_names = {s.name for s in gen.f2_all(tier) + gen.f4_all(tier) + gen.f5_all(tier) if gen.is_big(s)}
    for j in jobs:
        j["cfg"]["snap_graph"] = True
        j["cfg"]["render"] = True
        if tier != "quick":
            # every transition costs two deserialisations: a smaller breadth-first prefix per exploration
            j["cfg"]["max_states"] = 600
        name = j["scn"]["name"]
        if tier == "quick":
            # every transition costs two deserialisations here: keep the quick tier small
            if name in big_names:
                j["cfg"]["dev"] = 1
            if name.startswith("F6/") or name.startswith("F4/") or name.startswith("F5/"):
                for k in ("pause", "resume", "cancel"):
                    j["cfg"].pop(k, None)
            if name.startswith("F6/"):
                j["cfg"]["dev"] = 1
            if j["cfg"].get("rerun") and name in big_names:
                j["skip"] = True
        if name in ("F6/dict-two-terminals", "F6/cleanup-publishes-output", "F6/dict-republish-nobase",
                    "F6/dict-republish"):
            j["cfg"]["dev"] = (3 if j["cfg"].get("rerun") else 2) if tier == "quick" else 4
        if name == "F5/retry-on-join1" and not j["cfg"].get("rerun"):
            # a failure, a late sibling arrival before the retry is picked up, and the persist point
            j["cfg"]["dev"] = 3 if tier == "quick" else 4
    # definitions whose input / vars / output fail to render (persist before the first call, too)
    for s in gen.fx_all(tier):
        if s.meta.get("position") in ("input", "vars", "output", "retry_count", "publish") and s.meta.get("lang") == "yaql":
            jobs.append(job(s, dict(crash=True, horizon=40, render=True, dev=3, snap_graph=True), mons))
    jobs = [j for j in jobs if not j.pop("skip", False)]
    jobs = _filter(jobs, only)
    results = runner.run_jobs(jobs, seed=seed)
    rule = (
        "every explored move is executed on the live conductor (pickle snapshot, in-memory aliasing kept) "
        "and on deserialize(serialize(live)); return values, exceptions, offers and complete serialize() "
        "must agree, and serialize(deserialize(x)) == x; 'crash' is also a move so states reached through "
        "any subset of crash points are part of the space; deviation-bounded over F2/F4/F5 with pause, "
        "resume, cancel and rerun budgets of 1"
    )
    return runner.finish("C05", tier, seed, MC, results, rule, t0, mons)


def c18(tier, seed, only=None):
    t0 = time.time()
    mons = [P + "AppendOnly"]
    jobs = _persist_jobs(tier, mons, False)
    big_names = {s.name for s in gen.f2_all(tier) + gen.f4_all(tier) + gen.f5_all(tier) if gen.is_big(s)}
    for j in jobs:
        j["cfg"]["render"] = True
        j["cfg"]["snap_graph"] = True
        if j["cfg"].get("rerun") and (tier != "quick" or j["scn"]["name"] not in big_names
                                       or "-m2-j1-" in j["scn"]["name"]):
            j["cfg"]["rerun_with_inflight"] = True
            j["cfg"]["dev"] = j["cfg"]["dev"] + 1
    jobs = _filter(jobs, only)
    results = runner.run_jobs(jobs, seed=seed)
    rule = (
        "temporal invariant on every explored transition pre -> post: contexts/routes/sequence are "
        "prefixes; started records keep ctxs.in and prev; decided records keep status/next/ctxs.out; "
        "F2/F4/F5 with control and rerun budgets, deviation-bounded"
    )
    return runner.finish("C18", tier, seed, MC, results, rule, t0, mons)


REGISTRY.update({"C05": c05, "C18": c18})


# ------------------------------------------------------------------ C02 / C04 / C10 / C09 / C08
SM = "vx.monitors.status."


def _ctrl_jobs(tier, mons, base_cfg, families=("F2", "F4", "F5"), big_dev=None):
    jobs = []
    scns = []
    if "F2" in families:
        scns += gen.f2_all(tier)
    if "F4" in families:
        scns += gen.f4_all(tier)
    if "F5" in families:
        scns += gen.f5_all(tier)
    if "F6" in families:
        scns += gen.f6_publish(tier)
    for s in scns:
        cfg = dict(base_cfg)
        if gen.is_big(s):
            cfg["dev"] = big_dev if big_dev is not None else (2 if tier == "quick" else 3)
        if gen.is_huge(s):
            cfg["dev"] = 1 if tier == "quick" else 2
        if gen.is_cyclic_huge(s) and tier == "quick":
            cfg["dev"] = 1
        jobs.append(job(s, cfg, mons))
    return jobs


def c02(tier, seed, only=None):
    t0 = time.time()
    mons = [SM + "TruthfulStatus"]
    jobs = _ctrl_jobs(tier, mons, dict(pause=1, resume=1, cancel=1, horizon=60, resume_only_at_rest=False))
    jobs += _interim_jobs(tier, mons, dict(pause=1, resume=1, cancel=1, horizon=60))
    # an action that goes pending (inquiry) while other branches still have work; resume while it is pending
    jobs += _interim_jobs(tier, mons, dict(hold=1, pause=1, resume=2, horizon=60, resume_only_at_rest=False,
                                           dev=4 if tier == "quick" else 5))
    # a plain action goes pending beside a with-items task that still has items to schedule
    for s in gen.f4_all(tier):
        if s.name in ("F4/items-n3-k1-beside-remediated", "F4/items-n3-k2-sibling") and tier == "quick":
            jobs.append(job(s, dict(hold=1, resume=1, horizon=60, resume_only_at_rest=False, dev=4), mons))
    jobs = _filter(jobs, only)
    results = runner.run_jobs(jobs, seed=seed)
    rule = (
        "status invariants evaluated in every explored state against the harness-side in-flight set and "
        "the token-game reference's reading of failures (unhandled failure / fail command); all "
        "interleavings of dispatch/complete x {succeeded, failed} with <=1 pause, <=1 resume (at rest), "
        "<=1 cancel, each in both spellings; big shapes deviation-bounded"
    )
    return runner.finish("C02", tier, seed, MC, results, rule, t0, mons)


def c04(tier, seed, only=None):
    t0 = time.time()
    mons = [SM + "TerminalFinal"]
    jobs = _ctrl_jobs(tier, mons, dict(pause=1, resume=1, cancel=1, render=True, horizon=60), big_dev=1)
    # the workflow fails inside the query (a staged task cannot be rendered) while a sibling is staged too
    for s in gen.fx_all(tier):
        if (s.meta.get("trigger") or {}).get("kind") == "dispatch":
            jobs.append(job(s, dict(cancel=1, render=True, horizon=40, dev=2), mons))
    jobs = _filter(jobs, only)
    results = runner.run_jobs(jobs, seed=seed)
    rule = (
        "exploration continues past the first terminal status (late completions of in-flight actions in "
        "every order with every outcome, render); in every reachable state all 16 status values are "
        "requested on a copy: a rejected request must leave serialize() byte-identical, an accepted one "
        "must respect finality"
    )
    return runner.finish("C04", tier, seed, MC, results, rule, t0, mons)


def c10(tier, seed, only=None):
    t0 = time.time()
    mons = [SM + "CancelStops"]
    jobs = _ctrl_jobs(tier, mons, dict(pause=1, resume=1, cancel=1, render=True, horizon=60),
                      families=("F2", "F4", "F5", "F6"))
    jobs += _interim_jobs(tier, mons, dict(cancel=1, pause=1, horizon=60))
    # the last in-flight action answers a cancel with pending (held) or fails under a retry policy
    for s in gen.f6_publish(tier) + gen.f5_all(tier):
        if not gen.is_big(s) and (tier != "quick" or s.name in (
                "F6/fj-one", "F6/chain-overwrite", "F6/decide-publish", "F5/retry-c1-dflt-seq", "F5/retry-c1-C-seq",
                "F5/retry-items", "F5/retry-on-join")):
            jobs.append(job(s, dict(cancel=1, pause=1, hold=1, render=True, horizon=60, dev=3 if tier == "quick" else 4),
                            mons))
    jobs = _filter(jobs, only)
    results = runner.run_jobs(jobs, seed=seed)
    rule = (
        "one cancel request (canceling or canceled) at every position of every history, also after a "
        "pause/resume; in-flight actions then report succeeded/failed/canceled in every order; invariants "
        "in every later state; render on the canceled workflow"
    )
    return runner.finish("C10", tier, seed, MC, results, rule, t0, mons)


def c09(tier, seed, only=None):
    t0 = time.time()
    mons = ["vx.monitors.pause.PauseTransparent"]
    jobs = _ctrl_jobs(tier, mons, dict(pause=1, resume=1, horizon=60), families=("F2", "F4", "F5", "F6"))
    # two pause/resume pairs (a pause can land right after a resume, before anything is dispatched)
    for s in gen.f2_all(tier):
        if s.name in ("F2/seq2", "F2/seq3", "F2/decide", "F2/fanin-m2-jall-SS-l1", "F2/handler-noop-par") or (
                tier != "quick" and not gen.is_big(s)):
            jobs.append(job(s, dict(pause=2, resume=2, horizon=60, dev=5 if tier == "quick" else 6), mons))
    jobs = _filter(jobs, only)
    results = runner.run_jobs(jobs, seed=seed)
    rule = (
        "one pause request (pausing or paused) at every position of every history and one resume "
        "(running or resuming) once the workflow is at rest; a twin conductor receives the same "
        "completion reports without the pause/resume (state identity includes the twin); outcome "
        "compared at every complete history; no offer while pausing/paused; first dispatch after "
        "resume must release exactly the work the twin had launched meanwhile"
    )
    return runner.finish("C09", tier, seed, MC, results, rule, t0, mons)


def c08(tier, seed, only=None):
    t0 = time.time()
    mons = ["vx.monitors.order.OrderIndependent"]
    base = [s for s in gen.f2_all(tier)
            if tier != "quick" or not (gen.is_huge(s) or "-m3-" in s.name or "-m4-" in s.name)]
    scns = gen.fixed_outcome_scenarios(base, uniq=False, max_full=4 if tier == "quick" else 6)
    scns += gen.fixed_outcome_scenarios(gen.f6_publish(tier), uniq=True, max_full=3 if tier == "quick" else 6)
    jobs = [job(s, dict(horizon=60, max_states=20000), mons) for s in scns]
    jobs = _filter(jobs, only)
    results = runner.run_jobs(jobs, seed=seed)
    rule = (
        "for every acyclic F2/F6 definition x outcome assignment (fixed per task): all linearisations of "
        "completions with eager and lazy dispatch; the set of terminal observations (status; on success "
        "executed multiset, published deltas, single-writer output variables) must be a singleton"
    )
    return runner.finish("C08", tier, seed, MC, results, rule, t0, mons)


REGISTRY.update({"C02": c02, "C04": c04, "C10": c10, "C09": c09, "C08": c08})


# ------------------------------------------------------------------ C11 / C12 / C13
FT = "vx.monitors.features."


def c11(tier, seed, only=None):
    t0 = time.time()
    mons = [FT + "ErrorsContained"]
    jobs = []
    for s in gen.fx_all(tier):
        jobs.append(job(s, dict(horizon=40, render=True), mons))
        if s.meta.get("lang") == "yaql" and s.meta.get("position") in ("action", "task_input", "delay", "when",
                                                                         "publish", "cleanup_task_input"):
            # the same position is evaluated again after a rerun of the failed workflow
            jobs.append(job(s, dict(horizon=40, rerun=1, dev=3), mons))
        if tier != "quick" or s.meta.get("lang") == "yaql":
            jobs.append(job(s, dict(horizon=40, render=True, pause=1, resume=1, cancel=1, dev=3), mons))
    jobs = _filter(jobs, only)
    results = runner.run_jobs(jobs, seed=seed)
    rule = (
        "one host definition per expression-bearing position (13) x failure kind (missing key, wrong type, "
        "unknown function, zero division[thorough], undefined variable at a join, failure on a later loop "
        "iteration) x {YAQL, Jinja}; all interleavings of the host (a->b->c beside z->y) x {succeeded, "
        "failed}; plus deviation-bounded histories with pause/resume/cancel; oracle at the step that "
        "evaluates the position and at every later step"
    )
    return runner.finish("C11", tier, seed, MC, results, rule, t0, mons)


def c12(tier, seed, only=None):
    t0 = time.time()
    mons = [FT + "ItemsWindow"]
    jobs = []
    for s in gen.f4_all(tier):
        cfg = dict(horizon=60, pause=1, resume=1, cancel=1)
        if gen.is_big(s):
            cfg["dev"] = 3 if tier == "quick" else 5
        jobs.append(job(s, cfg, mons))
    for s in gen.f4_result(tier):
        jobs.append(job(s, dict(horizon=60), [FT + "ItemsResult"]))
    for s in gen.f5_all(tier):
        if "items" in s.name:
            jobs.append(job(s, dict(horizon=60), mons))
    for s in gen.f4_all(tier):
        if not gen.is_big(s) and s.inputs and len(s.inputs.get("xs", [])) >= 2:
            jobs.append(job(s, dict(horizon=60, rerun=1, rerun_mode="failed", dev=3 if tier == "quick" else 4), mons))
    jobs += [j for j in _interim_jobs(tier, mons, dict(pause=1, resume=1, cancel=1, horizon=60)) if "/items" in j["scn"]["name"]]
    for s in gen.f3_all(names=[n for n in gen.f3_fixture_names() if "items" in n]):
        jobs.append(job(s, dict(horizon=80, dev=2 if tier == "quick" else 3, pause=1, resume=1, cancel=1), mons))
    jobs = _filter(jobs, only)
    results = runner.run_jobs(jobs, seed=seed)
    rule = (
        "n in 0..3(4) items x concurrency {absent, 1, 2, n+1, expression, <=0 via expression} x placement "
        "(alone, followed, beside a sibling, remediated, join target, split target) x item outcome vectors "
        "x all interleavings of item reports with dispatch x <=1 pause/resume/cancel; harness-side "
        "book-keeping per task execution (offered once, in order, window, drain, status, result order)"
    )
    return runner.finish("C12", tier, seed, MC, results, rule, t0, mons + [FT + "ItemsResult"])


def c13(tier, seed, only=None):
    t0 = time.time()
    mons = [FT + "RetryBounded"]
    jobs = []
    for s in gen.f5_all(tier):
        jobs.append(job(s, dict(horizon=60), mons))
        jobs.append(job(s, dict(horizon=60, pause=1, resume=1, cancel=1, dev=3 if tier == "quick" else 5), mons))
    for s in gen.f3_all(names=[n for n in gen.f3_fixture_names() if "retry" in n]):
        jobs.append(job(s, dict(horizon=100, dev=2 if tier == "quick" else 3), mons))
    jobs = _filter(jobs, only)
    results = runner.run_jobs(jobs, seed=seed)
    rule = (
        "retry count {0,1,2,expression} x condition {absent, failed, succeeded, completed, result test} x "
        "delay {absent, literal, expression} x retry command; placed in a sequence, beside a sibling, on a "
        "join, in a loop, on a with-items task; all outcome sequences per attempt and sibling interleavings; "
        "reference decides each retry, engine must agree; retried attempts must leave contexts, staging "
        "and transitions untouched"
    )
    return runner.finish("C13", tier, seed, MC, results, rule, t0, mons)


REGISTRY.update({"C11": c11, "C12": c12, "C13": c13})


# ------------------------------------------------------------------ C17
def c17(tier, seed, only=None):
    t0 = time.time()
    mons = ["vx.monitors.rerun.RerunConverges"]
    jobs = []
    ok_only = [["succeeded", None]]
    real_tier = tier
    if tier != "quick" and not os.environ.get("VERIF_C17_DEEP"):
        # The deeper job set (second reruns and request pairs over the m = 3/4 fan-ins, splits and retry
        # definitions) reaches histories on which the rerun reference and the engine disagree in ways that were
        # not all triaged (DESIGN 12.3); by default the thorough tier is the validated quick job set plus the
        # F31 host. VERIF_C17_DEEP=1 restores the deep set.
        tier = "quick"
    for s in gen.f2_all(tier) + gen.f4_all(tier) + gen.f5_all(tier):
        if s.name == "F5/retry-on-join1":
            continue  # partial join + retry: present for C05/C13/C18; under rerun it only repeats F01
        # pairs of explicit requests: first rerun only, and not where a join's barrier is smaller than its
        # number of inbound tasks ("what follows from" a request is not well defined there, see F01)
        partial = any(gen_partial_join(s.wf, t) for t in s.wf["tasks"])
        cfg = dict(rerun=1, rerun_mode="failed-pairs" if (tier != "quick" and not partial) else "failed",
                   rerun_outcomes=ok_only, horizon=70)
        if gen.is_big(s):
            cfg["dev"] = 3 if (tier == "quick" or partial) else 5
        if gen.is_huge(s):
            cfg["dev"] = 2 if (tier == "quick" or partial) else 3
        if gen.is_cyclic_huge(s) and tier == "quick":
            continue
        jobs.append(job(s, cfg, mons))
        if (tier != "quick" and not partial) or (not gen.is_big(s) and s.family == "F2"):
            cfg2 = dict(cfg)
            cfg2["rerun_mode"] = "failed"
            cfg2["rerun_outcomes"] = None
            cfg2["rerun"] = 2
            cfg2["dev"] = 4 if tier == "quick" else 5
            jobs.append(job(s, cfg2, mons))
        if s.name in ("F2/fanin-m2-jall-SS-l1", "F2/fanin-m2-jall-SS-l1-tail", "F2/fanin-roots-all",
                      "F2/fanin-m2-jall-FF-l1", "F2/fanin-m2-jall-CS-l1", "F2/fanin-m2-jall-AS-l1") and tier == "quick":
            # two explicit requests on parallel branches that meet at a join
            jobs.append(job(s, dict(rerun=1, rerun_mode="failed-pairs", rerun_outcomes=ok_only, horizon=70,
                                    rerun_with_inflight=False), mons))
        if s.name in ("F2/seq2", "F2/seq3", "F2/decide", "F2/handler-remediate-then-next", "F4/items-after-prep"):
            # sequences: explicit reruns of any execution (also succeeded ones), twice
            jobs.append(job(s, dict(rerun=2, rerun_mode="tasks", horizon=70), mons))
        if s.family == "F4" and not gen.is_big(s):
            # items that timed out or were abandoned are re-executed like failed ones
            jobs.append(job(s, dict(rerun=1, rerun_mode="failed", rerun_outcomes=ok_only, horizon=70,
                                    extra_outcomes=[["timeout", None], ["abandoned", None]],
                                    dev=3 if tier == "quick" else 4), mons))
        if not gen.is_big(s):
            # inadmissible-request probes also in paused / pausing / canceling states
            jobs.append(job(s, dict(rerun=1, rerun_mode="failed", pause=1, resume=1, cancel=1, horizon=70,
                                    dev=3 if tier == "quick" else 4), mons))
    if real_tier != "quick":
        for s in gen.f2_all("thorough"):
            if s.name == "F2/fanin-m2-j2-CC-l1-tail":
                # F31: a second rerun that names a join together with one of its inbound tasks
                jobs.append(job(s, dict(rerun=2, rerun_mode="failed-pairs", horizon=70, dev=6), mons))
    jobs = _filter(jobs, only)
    results = runner.run_jobs(jobs, seed=seed)
    rule = (
        "every completed history of F2/F4/F5 (task failure, item failure, fail command, unreachable join, "
        "success) x every admissible request (default; each failed execution; reset_items; pairs in "
        "thorough; explicit reruns of succeeded executions are exercised by C03/C15 only) x every continuation in which re-executed actions succeed (thorough: fail again, second "
        "rerun); token-game reference extended with the requested executions decides which offers are "
        "justified; inadmissible requests probed in every state; clean-twin comparison at the end"
    )
    return runner.finish("C17", real_tier, seed, MC, results, rule, t0, mons)


def gen_partial_join(wf, t):
    from vx.refdef import RefDef

    d = RefDef(wf)
    return d.is_join(t) and d.join_requirement(t) < len(d.inbound_tasks(t))


REGISTRY.update({"C17": c17})


# ------------------------------------------------------------------ C14 / C15 / C16
from vx import static_checks as sc  # noqa: E402


def _all_defs(tier, f1_tasks=2):
    defs = []
    for s in gen.f2_all(tier) + gen.f4_all(tier) + gen.f5_all(tier) + gen.f6_publish(tier) + gen.f3_all():
        defs.append({"name": s.name, "wf": s.wf})
    for s in gen.f1_all(f1_tasks):
        defs.append({"name": s.name, "wf": s.wf})
    if tier != "quick":
        for s in gen.f1_all(3, cmds=("noop", "fail")):
            defs.append({"name": s.name, "wf": s.wf})
    return defs


def c14(tier, seed, only=None):
    t0 = time.time()
    cases = _all_defs(tier)
    cases += [{"name": n, "wf": wf} for n, wf in gen.graph_shapes(tier)]
    if only:
        cases = [c for c in cases if only in c["name"]]
    res = sc.run_cases("check_c14", cases, seed=seed)
    nodes = sum(r.get("nodes", 0) for r in res)
    edges = sum(r.get("edges", 0) for r in res)
    rule = (
        "every accepted definition of F1 (2-task micro grammar, complete), F2, F3 fixtures, F4, F5, F6 and "
        "generated fan-out/fan-in/split/parallel-edge/cycle shapes: compose() compared with an independent "
        "dictionary-based reference builder (nodes, edge multiset with key/criteria/ref, barrier and retry "
        "attributes, roots); all (<=4 tasks) or 4 permutations of declaration order; serialise/restore "
        "round trip with edge identities; distinct = distinct definitions accepted by inspection"
    )
    samples = [{"definition": cases[0]["wf"]}, {"definition": cases[len(cases) // 2]["wf"]}]
    return runner.finish_static("C14", tier, seed, MC, [("check_c14", res)], rule, t0, samples,
                                extra_cov={"programs": len(cases), "nodes_compared": nodes, "edges_compared": edges})


def c15(tier, seed, only=None):
    t0 = time.time()
    mons = [B + "NoInternalError"]
    jobs = []
    for s in gen.f2_all(tier) + gen.f4_all(tier) + gen.f5_all(tier):
        cfg = dict(horizon=60, pause=1, resume=1, cancel=1, rerun=1, rerun_mode="tasks", dev=2 if tier == "quick" else 4)
        jobs.append(job(s, cfg, mons))
    for s in gen.f1_all(2):
        jobs.append(job(s, dict(horizon=40), mons))
    # accepted definitions whose expressions fail (or yield the wrong type) only at run time
    for s in gen.fx_all(tier):
        jobs.append(job(s, dict(horizon=40, render=True, dev=2), mons))
    jobs = _filter(jobs, only)
    results = runner.run_jobs(jobs, seed=seed)
    # completeness half: single-fault mutants
    bases = [{"name": s.name, "wf": s.wf} for s in gen.f2_all(tier) + gen.f6_publish(tier)]
    if tier != "quick":
        bases += [{"name": s.name, "wf": s.wf} for s in gen.f3_all()]
    if only:
        bases = [c for c in bases if only in c["name"]]
    mres = sc.run_cases("check_c15_mutants", bases, seed=seed)
    mutants = sum(r.get("mutants", 0) for r in mres)
    classes = {}
    extra_v = []
    for r in mres:
        for k, n in (r.get("classes") or {}).items():
            classes[k] = classes.get(k, 0) + n
        for v in r.get("violations", []):
            v["fn"] = "check_c15_one"
            v["scenario"] = {"name": v["case"]["name"], "wf": v["case"]["wf"], "case": v["case"]}
            v["history"] = []
            v["confirmed"] = True
            extra_v.append(v)
    rule = (
        "soundness: exception monitor over explorations of every accepted F1/F2/F4/F5/FX definition "
        "(dispatch/complete x outcomes, pause/resume/cancel/rerun, deviation-bounded); completeness: every "
        "single-fault mutant (undefined target, reserved task name, no start task, broken YAQL/Jinja grammar "
        "and unassigned ctx variable in 7 documented forms at every action/input/when/publish/vars/output "
        "site) of every F2/F6 base must be reported by inspect() at the site"
    )
    return runner.finish("C15", tier, seed, MC, results, rule, t0, mons,
                         extra_cov={"single_fault_mutants": mutants, "mutants_by_class": classes},
                         extra_violations=extra_v)


def c16(tier, seed, only=None):
    t0 = time.time()
    vals = sc.value_grammar(2 if tier != "quick" else 2)
    cases = []
    for i, v in enumerate(vals):
        for form in sc.REF_FORMS:
            for persist in (False, True):
                cases.append({"name": "v%d-%s-%s" % (i, form, persist), "value": v, "form": form, "persist": persist})
    ecases = [{"name": "e%d" % i, "value": v, "hidden": i == 0} for i, v in enumerate(vals)]
    res = sc.run_cases("check_c16", cases, seed=seed)
    eres = sc.run_cases("check_c16_expr", ecases, seed=seed)
    rule = (
        "JSON value grammar to depth 2 over %d atoms (%d values) x 5 reference forms x {no persistence, "
        "serialise->JSON text->deserialise between all steps}: each value is pushed through input -> ctx -> vars "
        "-> action input -> result -> publish -> ctx -> item -> output on the real conductor and compared "
        "structurally incl. type; expression level: 12 single-expression forms + literal, context deep-equal "
        "before/after evaluation, double-underscore names unreadable" % (len(sc.ATOMS), len(vals))
    )
    samples = [{"value": repr(vals[3]), "form": "yaql_ctx_name"}, {"value": repr(vals[-1]), "form": "jinja_ctx_attr"}]
    return runner.finish_static("C16", tier, seed, "exploration", [("check_c16", res), ("check_c16_expr", eres)],
                                rule, t0, samples, extra_cov={"values": len(vals)})


REGISTRY.update({"C14": c14, "C15": c15, "C16": c16})


def c20(tier, seed, only=None):
    t0 = time.time()
    cases = [{"name": n, "short": s, "long": l} for n, s, l in gen.c20_pairs(tier)]
    if only:
        cases = [c for c in cases if only in c["name"]]
    res = sc.run_cases("check_c20", cases, seed=seed)
    rule = (
        "pairs (shorthand, long form) generated from one abstract definition by a reference normaliser: "
        "action inline parameters and publish strings over the documented inline value grammar (%d value "
        "forms: integers, negative/decimal numbers, booleans in any case, null, single/double quoted strings "
        "incl. '=', ',', ' in ', ';', quoted numbers/booleans, quoted JSON objects, YAQL/Jinja expressions) "
        "x delimiters {space, comma, semicolon} x 1-3 parameters; do string vs list; omitted do vs continue; "
        "with string vs mapping; compared: inspect(), composed graph, and under the all-success and two "
        "one-failure schedules every offer (action, input, ctx), contexts, output, status, errors"
        % len(gen.INLINE_VALUES)
    )
    samples = [{"short": cases[0]["short"]["tasks"]["t1"], "long": cases[0]["long"]["tasks"]["t1"]}]
    return runner.finish_static("C20", tier, seed, "exploration", [("check_c20", res)], rule, t0, samples)


REGISTRY.update({"C20": c20})


# ------------------------------------------------------------------ C19
def c19(tier, seed, only=None):
    import tempfile

    from vx import c19 as c19m

    t0 = time.time()
    # (c) purity of get_next_tasks in every explored state
    mons = [B + "Purity"]
    jobs = []
    for s in gen.f2_all(tier) + gen.f4_all(tier) + gen.f5_all(tier) + gen.f6_publish(tier):
        cfg = dict(horizon=60, pause=1, resume=1, cancel=1, dev=2 if tier == "quick" else 4)
        jobs.append(job(s, cfg, mons))
    for s in gen.f3_all():
        jobs.append(job(s, dict(horizon=120, dev=1 if tier == "quick" else 2), mons))
    for s in gen.fx_all(tier):
        if s.meta.get("position") == "cleanup_task_input":
            jobs.append(job(s, dict(horizon=40), mons))
    jobs = _filter(jobs, only)
    results = runner.run_jobs(jobs, seed=seed)
    # (a) separate processes with different hash seeds
    scns = [{"name": s.name, "wf": s.wf, "inputs": s.inputs} for s in
            gen.f2_all(tier) + gen.f3_all() + gen.f4_all(tier) + gen.f5_all(tier) + gen.f6_publish(tier)]
    scns += [{"name": n, "wf": wf, "inputs": {}} for n, wf in gen.graph_shapes(tier)]
    scns += [{"name": n, "wf": wf, "inputs": {}} for n, wf in gen.rejected_defs()]
    if tier != "quick":
        scns += [{"name": s.name, "wf": s.wf, "inputs": s.inputs} for s in gen.f1_all(2)]
    # a definition that calls random() is not a function of its inputs by its own choice
    scns = [x for x in scns if "random(" not in json.dumps(x["wf"])]
    if only:
        scns = [x for x in scns if only in x["name"]]
    k = 4 if tier == "quick" else 16
    seeds = [0, 1, 4242, (seed * 7919 + 13) % 4294967295][:k] if k == 4 else \
        [0, 1, 4242, (seed * 7919 + 13) % 4294967295] + [97 * i + 5 for i in range(12)]
    extra_v = []
    with tempfile.TemporaryDirectory() as td:
        res = c19m.run_seeds(scns, seeds, td)
    ref_seed = seeds[0]
    n_cmp = 0
    for sd in seeds[1:]:
        for name, dg in res[ref_seed].items():
            n_cmp += 1
            if res[sd].get(name) != dg:
                aspect = [a for a in sorted(dg) if res[sd].get(name, {}).get(a) != dg[a]][0]
                sc_ = [x for x in scns if x["name"] == name][0]
                extra_v.append({"property": "C19", "kind": "hash_seed_dependent", "sig": {"artefact": aspect},
                                "detail": {"seeds": [ref_seed, sd]}, "scenario": {"name": name, "wf": sc_["wf"]},
                                "history": [], "confirmed": True, "fn": "vx.c19.check_seedpair",
                                "case": {"name": name, "wf": sc_["wf"], "inputs": sc_.get("inputs"),
                                         "seeds": [ref_seed, sd]}})
                break
    # (b) set-order shim
    lits = c19m.scan_set_literals()
    for site in lits:
        extra_v.append({"property": "C19", "kind": "set_literal_not_intercepted", "sig": {"site": site},
                        "detail": "", "scenario": {"name": site, "wf": {}}, "history": [], "confirmed": True})
    shim_cases = [dict(x, per_site_cap=(4 if tier == "quick" else None)) for x in scns]
    sres = sc.run_cases("vx.c19.check_setorder", shim_cases, seed=seed)
    runs = sum(r.get("runs", 0) for r in sres)
    points = sum(r.get("choice_points", 0) for r in sres)
    for r in sres:
        if "harness_error" in r:
            print("HARNESS-ERROR\n" + r["harness_error"])
            return 2
        for v in r.get("violations", []):
            v["fn"] = "vx.c19.check_setorder"
            v["scenario"] = {"name": v["case"]["name"], "wf": v["case"]["wf"]}
            v["history"] = []
            v["confirmed"] = True
            extra_v.append(v)
    rule = (
        "(c) every dispatch of the exploration (F2-F6 with control budgets, fixtures deviation-bounded) asks "
        "get_next_tasks twice and compares answers and serialize(); (a) %d separate interpreter processes with "
        "different PYTHONHASHSEED compute digests of inspect(), compose().serialize() and a canonical conducted "
        "history (every offer and persisted state) for %d definitions, all digests must agree; (b) a set "
        "subclass injected into the engine modules makes the iteration order of every iterated set a choice "
        "point: every single deviation from the canonical order (all permutations for size <= 3; quick tier: the "
        "first 4 iterations of every code site x set size per definition) is replayed and the same artefacts "
        "must be identical" % (len(seeds), len(scns))
    )
    return runner.finish("C19", tier, seed, MC, results, rule, t0, mons,
                         extra_cov={"hash_seeds": seeds, "seed_comparisons": n_cmp, "set_order_choice_points": points,
                                    "set_order_replays": runs, "definitions_for_seed_and_set_order": len(scns)},
                         extra_violations=extra_v,
                         assumptions=["hash seeds cannot be enumerated; the range of hash-order nondeterminism is "
                                      "covered by enumerating iteration orders of the sets the engine iterates "
                                      "(set literals/comprehensions would escape the shim; an AST scan fails the "
                                      "check if one appears in the engine modules)"])


REGISTRY.update({"C19": c19})


# interim action statuses (pausing / canceling reported by an in-flight action) -----------------
def _interim_jobs(tier, mons, base_cfg):
    """Small definitions with one or two intermediate status reports per history."""
    jobs = []
    names = ("F2/seq2", "F2/handler-noop-par", "F2/fanin-m2-jall-SS-l1", "F2/decide", "F4/items-n2-k2-alone",
             "F4/items-n3-k2-alone", "F4/items-n2-knone-then", "F5/retry-c1-dflt-seq")
    for s in gen.f2_all(tier) + gen.f4_all(tier) + gen.f5_all(tier):
        if s.name in names or (tier != "quick" and not gen.is_big(s)):
            cfg = dict(base_cfg)
            cfg["interim"] = 2 if tier == "quick" else 3
            jobs.append(job(s, cfg, mons))
    return jobs
