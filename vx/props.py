"""Per-property checks: scenario sets, bounds, monitors."""

import json
import time

from vx import explore as ex
from vx import gen
from vx import runner
from vx.sim import Scenario

MC = "model_checking"

B = "vx.monitors.basic."


def job(scn, cfg, monitors, require_clean=True, deadline=None):
    return {
        "scn": scn.to_json(),
        "cfg": cfg,
        "monitors": monitors,
        "require_clean": require_clean,
        "deadline": deadline,
    }


def _filter(jobs, only):
    if only:
        jobs = [j for j in jobs if only in j["scn"]["name"]]
    return jobs


# ------------------------------------------------------------------ C03
def c03(tier, seed, only=None):
    t0 = time.time()
    mons = [B + "Quiescence"]
    jobs = []
    ctrl = dict(pause=1, resume=1, cancel=1, horizon=40)
    for s in gen.f2_all(tier):
        jobs.append(job(s, dict(ctrl), mons))
        jobs.append(job(s, dict(rerun=1, rerun_mode="tasks", horizon=40), mons))
    for s in gen.f4_all(tier) + gen.f5_all(tier):
        jobs.append(job(s, dict(ctrl), mons))
        jobs.append(job(s, dict(rerun=1, rerun_mode="tasks", horizon=40), mons))
    dev = 2 if tier == "quick" else 3
    for s in gen.f3_all():
        jobs.append(job(s, dict(pause=1, resume=1, cancel=1, dev=dev, horizon=120), mons))
    jobs = _filter(jobs, only)
    results = runner.run_jobs(jobs, seed=seed)
    rule = (
        "explicit-state BFS over provider moves (dispatch / complete x outcome / pause / resume / "
        "cancel / rerun) on the real conductor; F2,F4,F5: all interleavings with <=1 pause, "
        "<=1 resume, <=1 cancel (both spellings) or <=1 rerun; F3 fixtures: deviation bound %d; "
        "oracle evaluated at every quiescent point (nothing in flight, empty offer); a state is "
        "distinct by canonical persisted state + aliasing + provider state" % dev
    )
    return runner.finish("C03", tier, seed, MC, results, rule, t0, mons)


REGISTRY = {
    "C03": c03,
}


def run(prop, tier, seed, only=None):
    if prop not in REGISTRY:
        print("unknown property %s" % prop)
        return 2
    return REGISTRY[prop](tier, seed, only=only)


def replay_file(path):
    with open(path) as f:
        body = json.load(f)
    scn = Scenario.from_json(body["scenario"])
    cfg = ex.Config(**(body.get("cfg") or {}))
    mons = [runner.resolve(n) for n in body.get("monitors") or []]
    sim, found = ex.run_path(scn, cfg, mons, body["history"])
    want = (body["property"], body["kind"], json.dumps(body.get("sig", {}), sort_keys=True))
    hit = [f for f in found if (f["property"], f["kind"], json.dumps(f.get("sig", {}), sort_keys=True)) == want]
    print("replayed %d moves on a fresh conductor; final status=%s" % (len(body["history"]), sim.status))
    for f in found:
        print("  step %s: %s %s %s" % (f.get("at"), f["property"], f["kind"], json.dumps(f.get("sig", {}), sort_keys=True)))
    if hit:
        print("VIOLATION property=%s replay=%s" % (body["property"], path))
        return 1
    print("violation not reproduced")
    return 0
