"""Replays the witness of every recorded (known) finding on a fresh conductor, without the explorer.

Run:  cd /verif && /venv/bin/python -m unittest tests.test_findings -v
A witness that no longer reproduces means the defect was repaired: move its entry to status "fixed".
"""
import glob
import json
import os
import sys
import unittest

ROOT = os.path.dirname(os.path.dirname(os.path.abspath(__file__)))
sys.path.insert(0, ROOT)

from vx import explore as ex  # noqa: E402
from vx import runner  # noqa: E402
from vx.sim import Scenario  # noqa: E402


class KnownFindingWitnesses(unittest.TestCase):
    def test_witnesses_reproduce(self):
        files = sorted(glob.glob(os.path.join(ROOT, "findings", "*.json")))
        self.assertTrue(files)
        findings = runner.load_findings()
        known = {f["id"] for f in findings if f.get("status") == "known"}
        for path in files:
            fid = os.path.basename(path)[:-5]
            if fid not in known:
                continue
            with self.subTest(finding=fid):
                body = json.load(open(path))
                scn = Scenario.from_json(body["scenario"])
                cfg = ex.Config(**(body.get("cfg") or {}))
                mons = [runner.resolve(n) for n in body.get("monitors") or []]
                prior = [body["pair"]] if body.get("pair") else None
                _, found = ex.run_path(scn, cfg, mons, body["history"], prior=prior)
                # the replay must raise a violation that the runner classifies as this very finding
                # (signatures may have gained attributes since the witness was written)
                ids = [(runner.match_finding(f, findings) or {}).get("id") for f in found]
                self.assertIn(fid, ids, msg=[(f["property"], f["kind"], f.get("sig")) for f in found])


if __name__ == "__main__":
    unittest.main()
